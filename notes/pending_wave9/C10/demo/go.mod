module demo

go 1.19

require github.com/crillab/gophersat v0.0.0

replace github.com/crillab/gophersat => ../..
