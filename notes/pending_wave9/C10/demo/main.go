// Demo for C10: rounds of Assume+Solve are compared, round by round, with a
// brute-force decision of (formula AND that round's assumptions).
package main

import (
	"fmt"
	"math/rand"
	"os"

	"github.com/crillab/gophersat/solver"
)

const nbVars = 10

func satisfies(cnf []solver.CardConstr, assumps []int, m int) bool {
	val := func(l int) bool {
		if l > 0 {
			return m>>(l-1)&1 == 1
		}
		return m>>(-l-1)&1 == 0
	}
	for _, a := range assumps {
		if !val(a) {
			return false
		}
	}
	for _, c := range cnf {
		nb := 0
		for _, l := range c.Lits {
			if val(l) {
				nb++
			}
		}
		if nb < c.AtLeast {
			return false
		}
	}
	return true
}

func bruteSat(cnf []solver.CardConstr, assumps []int) bool {
	for m := 0; m < 1<<nbVars; m++ {
		if satisfies(cnf, assumps, m) {
			return true
		}
	}
	return false
}

func main() {
	for seed := int64(1); seed <= 20000; seed++ {
		rnd := rand.New(rand.NewSource(seed))
		var cnf []solver.CardConstr
		nbCl := 14 + rnd.Intn(10)
		for i := 0; i < nbCl; i++ {
			sz := 3 + rnd.Intn(3)
			perm := rnd.Perm(nbVars)
			c := make([]int, sz)
			for j := range c {
				c[j] = perm[j] + 1
				if rnd.Intn(2) == 0 {
					c[j] = -c[j]
				}
			}
			cnf = append(cnf, solver.CardConstr{Lits: c, AtLeast: 1 + rnd.Intn(2)})
		}
		cp := make([]solver.CardConstr, len(cnf)) // the parser may reorder/shrink its input
		for i, c := range cnf {
			cp[i] = solver.CardConstr{Lits: append([]int(nil), c.Lits...), AtLeast: c.AtLeast}
		}
		pb := solver.ParseCardConstrs(cp)
		if pb.NbVars < nbVars {
			continue
		}
		s := solver.New(pb)
		for round := 1; round <= 6; round++ {
			nbA := rnd.Intn(4)
			perm := rnd.Perm(nbVars)
			assumps := make([]int, nbA)
			lits := make([]solver.Lit, nbA)
			for j := range assumps {
				assumps[j] = perm[j] + 1
				if rnd.Intn(2) == 0 {
					assumps[j] = -assumps[j]
				}
				lits[j] = solver.IntToLit(int32(assumps[j]))
			}
			st := s.Assume(lits)
			if st != solver.Unsat {
				st = s.Solve()
			}
			want := bruteSat(cnf, assumps)
			if (st == solver.Sat) != want {
				fmt.Printf("VIOLATION seed=%d round=%d: assumptions %v, solver says %v, brute force says sat=%v\ncnf=%v\n", seed, round, assumps, st, want, cnf)
				os.Exit(1)
			}
			if st == solver.Sat {
				m := 0
				for i, b := range s.Model() {
					if b {
						m |= 1 << i
					}
				}
				if !satisfies(cnf, assumps, m) {
					fmt.Printf("VIOLATION seed=%d round=%d: model does not satisfy formula+assumptions %v\ncnf=%v\n", seed, round, assumps, cnf)
					os.Exit(1)
				}
			}
		}
	}
	fmt.Println("OK: all rounds agree with brute force")
}
