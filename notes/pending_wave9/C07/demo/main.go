// Demo for property C07: every MUS extraction method must return an unsatisfiable, minimal
// sub-multiset of the input, also when several extractions are run one after the other on
// the SAME *explain.Problem value (the caller's problem must be left unchanged by each call).
package main

import (
	"fmt"
	"os"
	"reflect"
	"sort"
	"strings"

	"github.com/crillab/gophersat/explain"
)

// isSat is a tiny independent satisfiability check (exhaustive, the instances are small).
func isSat(nbVars int, clauses [][]int) bool {
	for m := 0; m < 1<<uint(nbVars); m++ {
		ok := true
		for _, c := range clauses {
			sat := false
			for _, l := range c {
				v := l
				if v < 0 {
					v = -v
				}
				if (m>>(uint(v)-1))&1 == 1 == (l > 0) {
					sat = true
					break
				}
			}
			if !sat {
				ok = false
				break
			}
		}
		if ok {
			return true
		}
	}
	return false
}

func key(c []int) string {
	c2 := append([]int{}, c...)
	sort.Ints(c2)
	return fmt.Sprint(c2)
}

func check(name string, pb *explain.Problem, mus *explain.Problem, err error) []string {
	var bad []string
	if err != nil {
		return []string{fmt.Sprintf("%s: unexpected error on an unsatisfiable problem: %v", name, err)}
	}
	if mus.NbClauses != len(mus.Clauses) {
		bad = append(bad, fmt.Sprintf("%s: NbClauses=%d but %d clauses", name, mus.NbClauses, len(mus.Clauses)))
	}
	avail := map[string]int{}
	for _, c := range pb.Clauses {
		avail[key(c)]++
	}
	for _, c := range mus.Clauses {
		avail[key(c)]--
		if avail[key(c)] < 0 {
			bad = append(bad, fmt.Sprintf("%s: clause %v occurs more often than in the input", name, c))
		}
	}
	if isSat(pb.NbVars, mus.Clauses) {
		bad = append(bad, fmt.Sprintf("%s: returned \"MUS\" %v is SATISFIABLE", name, mus.Clauses))
		return bad
	}
	for i := range mus.Clauses {
		rest := append(append([][]int{}, mus.Clauses[:i]...), mus.Clauses[i+1:]...)
		if !isSat(pb.NbVars, rest) {
			bad = append(bad, fmt.Sprintf("%s: not minimal, clause %v can be removed", name, mus.Clauses[i]))
		}
	}
	return bad
}

const cnf1 = `p cnf 5 7
1 2 0
1 -2 0
-1 2 0
-1 -2 0
3 4 0
-3 5 0
-4 -5 3 0
`

// pigeonhole 3 pigeons / 2 holes (var 2*(p-1)+h) plus a few irrelevant clauses
const cnf2 = `p cnf 8 13
7 8 0
1 2 0
3 4 0
5 6 0
-7 8 0
-1 -3 0
-1 -5 0
-3 -5 0
-2 -4 0
-2 -6 0
-4 -6 0
7 -8 1 0
-7 -8 2 0
`

func main() {
	var bad []string
	for n, cnf := range []string{cnf1, cnf2} {
		pb, err := explain.ParseCNF(strings.NewReader(cnf))
		if err != nil {
			panic(err)
		}
		ref, _ := explain.ParseCNF(strings.NewReader(cnf))
		methods := []struct {
			name string
			f    func() (*explain.Problem, error)
		}{
			{"MUSDeletion (1st call)", pb.MUSDeletion},
			{"MUSDeletion (2nd call)", pb.MUSDeletion},
			{"MUSMaxSat", pb.MUSMaxSat},
			{"MUS", pb.MUS},
			{"MUSInsertion", pb.MUSInsertion},
		}
		for _, m := range methods {
			name := fmt.Sprintf("instance %d, %s", n+1, m.name)
			mus, err := func() (mus *explain.Problem, err error) {
				defer func() {
					if r := recover(); r != nil {
						err = fmt.Errorf("PANIC: %v", r)
					}
				}()
				return m.f()
			}()
			res := check(name, pb, mus, err)
			if len(res) == 0 {
				fmt.Printf("ok   %s: %d clauses\n", name, len(mus.Clauses))
			}
			bad = append(bad, res...)
			if !reflect.DeepEqual(pb.Clauses, ref.Clauses) || pb.NbVars != ref.NbVars || pb.NbClauses != ref.NbClauses {
				bad = append(bad, name+": the caller's problem was modified")
			}
		}
	}
	if len(bad) > 0 {
		for _, b := range bad {
			fmt.Println("FAIL", b)
		}
		os.Exit(1)
	}
	fmt.Println("PASS: all MUSes are unsatisfiable minimal sub-multisets of the input")
}
