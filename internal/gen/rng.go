// Package gen holds the pseudo-random generators of the harness. Everything is derived from one
// seed through a splittable PRNG so that any case replays alone. It never imports gophersat.
package gen

// Rng is a splitmix64 generator.
type Rng struct{ s uint64 }

// Mix hashes a list of values into one seed.
func Mix(vals ...uint64) uint64 {
	h := uint64(0x9E3779B97F4A7C15)
	for _, v := range vals {
		h ^= v + 0x9E3779B97F4A7C15 + (h << 6) + (h >> 2)
		h = (h ^ (h >> 30)) * 0xBF58476D1CE4E5B9
		h = (h ^ (h >> 27)) * 0x94D049BB133111EB
		h ^= h >> 31
	}
	return h
}

// HashString hashes a string (FNV-1a 64).
func HashString(s string) uint64 {
	h := uint64(14695981039346656037)
	for i := 0; i < len(s); i++ {
		h ^= uint64(s[i])
		h *= 1099511628211
	}
	return h
}

// New returns a generator for the given seed.
func New(seed uint64) *Rng { return &Rng{s: seed} }

// U64 returns the next 64 random bits.
func (r *Rng) U64() uint64 {
	r.s += 0x9E3779B97F4A7C15
	z := r.s
	z = (z ^ (z >> 30)) * 0xBF58476D1CE4E5B9
	z = (z ^ (z >> 27)) * 0x94D049BB133111EB
	return z ^ (z >> 31)
}

// Intn returns a value in [0,n). n must be > 0.
func (r *Rng) Intn(n int) int {
	if n <= 0 {
		panic("gen: Intn with n <= 0")
	}
	return int(r.U64() % uint64(n))
}

// Range returns a value in [lo,hi].
func (r *Rng) Range(lo, hi int) int {
	if hi < lo {
		return lo
	}
	return lo + r.Intn(hi-lo+1)
}

// Bool returns a random boolean.
func (r *Rng) Bool() bool { return r.U64()&1 == 1 }

// Chance returns true with probability num/den.
func (r *Rng) Chance(num, den int) bool { return r.Intn(den) < num }

// Perm returns a random permutation of [0,n).
func (r *Rng) Perm(n int) []int {
	p := make([]int, n)
	for i := range p {
		p[i] = i
	}
	for i := n - 1; i > 0; i-- {
		j := r.Intn(i + 1)
		p[i], p[j] = p[j], p[i]
	}
	return p
}

// Lit returns a random literal over variables 1..n.
func (r *Rng) Lit(n int) int {
	v := r.Intn(n) + 1
	if r.Bool() {
		return -v
	}
	return v
}

// DistinctLits returns k literals over k distinct variables of 1..n (k <= n).
func (r *Rng) DistinctLits(n, k int) []int {
	if k > n {
		k = n
	}
	p := r.Perm(n)
	res := make([]int, k)
	for i := 0; i < k; i++ {
		res[i] = p[i] + 1
		if r.Bool() {
			res[i] = -res[i]
		}
	}
	return res
}

// Split returns an independent generator.
func (r *Rng) Split() *Rng { return New(Mix(r.U64(), 0x5851F42D4C957F2D)) }
