package gen

import "verif/internal/ref"

// Op is one step of an incremental history.
type Op struct {
	Kind string  `json:"kind"`         // solve | add
	As   string  `json:"as,omitempty"` // clause | card | pb : which constructor builds the added constraint
	C    ref.Lin `json:"c,omitempty"`
	Why  string  `json:"why,omitempty"` // how the constraint was crafted (for the evidence samples)
}

// backbone returns, for each variable of 1..n, +1 / -1 if every model of p fixes it, else 0; sat=false if p has no model.
func backbone(p *ref.Problem, n int) (bb []int, sat bool) {
	var allTrue, allFalse uint32 = 1<<uint(n) - 1, 1<<uint(n) - 1
	for a := uint32(0); a < 1<<uint(n); a++ {
		if p.Holds(a) {
			sat = true
			allTrue &= a
			allFalse &^= a
		}
	}
	bb = make([]int, n+1)
	if !sat {
		return bb, false
	}
	for v := 1; v <= n; v++ {
		if allTrue>>(uint(v)-1)&1 == 1 {
			bb[v] = 1
		} else if allFalse>>(uint(v)-1)&1 == 1 {
			bb[v] = -1
		}
	}
	return bb, true
}

// RandomHistory draws a base problem and a history of additions and solves.
// base is "cnf", "card" or "pb".
func RandomHistory(r *Rng, base string) (p *ref.Problem, ops []Op) {
	switch base {
	case "cnf":
		cnf, n := RandomCNF(r, CNFOpts{MinVars: 2, MaxVars: 8, MaxLen: 4, Weird: r.Chance(1, 3)})
		if r.Bool() && len(cnf) > n {
			cnf = cnf[:n]
		}
		var c2 [][]int
		for _, c := range cnf {
			if len(c) > 0 {
				c2 = append(c2, c)
			}
		}
		p = ref.CNFToProblem(c2, n)
	case "card":
		p = RandomPBProblem(r, PBOpts{MinVars: 2, MaxVars: 8, CardOnly: true, MaxCons: 4})
	default:
		p = RandomPBProblem(r, PBOpts{MinVars: 2, MaxVars: 8, MaxW: r.Range(1, 4), NegCoefs: true, MaxCons: 4})
	}
	if mv := p.MaxVar(); mv > p.N {
		p.N = mv
	}
	cur := p.Clone()
	n := cur.N
	if r.Bool() {
		ops = append(ops, Op{Kind: "solve"})
	}
	nbAdds := r.Range(1, 8)
	for i := 0; i < nbAdds; i++ {
		bb, sat := backbone(cur, n)
		var fixedTrue, fixedFalse, free []int // literals
		for v := 1; v <= n; v++ {
			switch bb[v] {
			case 1:
				fixedTrue, fixedFalse = append(fixedTrue, v), append(fixedFalse, -v)
			case -1:
				fixedTrue, fixedFalse = append(fixedTrue, -v), append(fixedFalse, v)
			default:
				free = append(free, v)
			}
		}
		pickFree := func(k int) []int {
			var res []int
			if len(free) == 0 {
				return res
			}
			perm := r.Perm(len(free))
			for j := 0; j < k && j < len(free); j++ {
				l := free[perm[j]]
				if r.Bool() {
					l = -l
				}
				res = append(res, l)
			}
			return res
		}
		op := Op{Kind: "add", As: "clause"}
		shape := r.Intn(12)
		if !sat {
			shape = 7 + r.Intn(5)
		}
		if shape == 6 && n+3 > 14 { // keep the conjunction within reach of the truth table
			shape = 11
		}
		switch shape {
		case 0: // already satisfied by a fixed literal
			if len(fixedTrue) > 0 {
				op.C = ref.Cl(append(pickFree(r.Intn(3)), fixedTrue[r.Intn(len(fixedTrue))])...)
				op.Why = "satisfied"
				break
			}
			fallthrough
		case 1: // unit under the fixed literals
			if len(fixedFalse) > 0 && len(free) > 0 {
				lits := pickFree(1)
				for k := r.Range(1, 2); k > 0; k-- {
					lits = append(lits, fixedFalse[r.Intn(len(fixedFalse))])
				}
				op.C = ref.Cl(lits...)
				op.Why = "unit"
				break
			}
			fallthrough
		case 2: // contradictory: only falsified literals
			if len(fixedFalse) > 0 {
				var lits []int
				for k := r.Range(1, 3); k > 0; k-- {
					lits = append(lits, fixedFalse[r.Intn(len(fixedFalse))])
				}
				op.C = ref.Cl(lits...)
				op.Why = "contradictory"
				break
			}
			fallthrough
		case 3: // plain unit clause
			op.C = ref.Cl(r.Lit(n))
			op.Why = "unit-clause"
		case 4: // repeated literal
			lits := r.DistinctLits(n, r.Range(1, min(3, n)))
			lits = append(lits, lits[r.Intn(len(lits))])
			if r.Bool() {
				lits = append([]int{lits[len(lits)-1]}, lits...)
			}
			op.C = ref.Cl(lits...)
			op.Why = "repeated-literal"
		case 5: // complementary pair
			lits := r.DistinctLits(n, r.Range(1, min(3, n)))
			lits = append(lits, -lits[r.Intn(len(lits))])
			op.C = ref.Cl(lits...)
			op.Why = "complementary"
		case 6: // brand-new variables
			grow := r.Range(1, 3)
			lits := r.DistinctLits(n, r.Range(0, min(2, n)))
			for g := 0; g < grow; g++ {
				if g == grow-1 || r.Bool() {
					v := n + g + 1
					if r.Bool() {
						v = -v
					}
					lits = append(lits, v)
				}
			}
			n += grow
			op.C = ref.Cl(lits...)
			op.Why = "new-variables"
		case 7, 8: // cardinality constraint
			k := r.Range(2, min(n, 5))
			lits := r.DistinctLits(n, k)
			op.As = "card"
			op.C = ref.Lin{Lits: lits, Rel: ref.GE, Rhs: r.Range(1, len(lits))}
			op.Why = "card"
			if r.Chance(1, 4) { // the same literal listed twice: it counts twice
				lits = append(lits, lits[r.Intn(len(lits))])
				p := r.Perm(len(lits))
				l2 := make([]int, len(lits))
				for a, b := range p {
					l2[a] = lits[b]
				}
				op.C = ref.Lin{Lits: l2, Rel: ref.GE, Rhs: r.Range(1, len(l2))}
				op.Why = "card-repeated-literal"
			} else if r.Chance(1, 6) { // a literal and its negation: exactly one of them counts
				lits = append(lits, -lits[r.Intn(len(lits))])
				op.C = ref.Lin{Lits: lits, Rel: ref.GE, Rhs: r.Range(1, len(lits))}
				op.Why = "card-complementary"
			}
		case 9, 10: // PB constraint
			op.As = "pb"
			op.C = RandomPB(r, n, PBOpts{MaxW: r.Range(1, 4), NegCoefs: true})
			if r.Chance(1, 4) {
				op.C = RandomCard(r, n, false)
			}
			op.Why = "pb"
			if len(op.C.Lits) >= 1 && len(op.C.Coefs) == len(op.C.Lits) && op.C.Rel == ref.GE && r.Chance(1, 4) {
				// the same literal in two terms: the coefficients add up
				i := r.Intn(len(op.C.Lits))
				op.C.Lits = append(op.C.Lits, op.C.Lits[i])
				op.C.Coefs = append(op.C.Coefs, r.Range(1, 3))
				op.Why = "pb-repeated-literal"
			}
		default:
			op.C = ref.Cl(r.DistinctLits(n, r.Range(1, min(3, n)))...)
			op.Why = "clause"
		}
		ops = append(ops, op)
		cur.Cons = append(cur.Cons, op.C.Clone())
		cur.N = n
		if r.Chance(3, 4) || i == nbAdds-1 {
			ops = append(ops, Op{Kind: "solve"})
		}
	}
	return p, ops
}
