package gen

import (
	"fmt"
	"strings"

	"verif/internal/ref"
)

// Free-layout renderers of DIMACS CNF, OPB and WCNF. Only freedoms the published formats clearly
// allow are used (see DESIGN.md, C13).

func ws(r *Rng, rich bool) string {
	if !rich {
		return " "
	}
	switch r.Intn(6) {
	case 0:
		return "  "
	case 1:
		return "\t"
	case 2:
		return " \t "
	}
	return " "
}

func comment(r *Rng, lead string) string {
	texts := []string{"", " a comment", " p cnf 3 4", " 1 2 0", " x1 >= 2 ;", " c c c", "\tcomment with\ttabs"}
	return lead + texts[r.Intn(len(texts))]
}

// DimacsLayout renders cnf over n declared variables for a byte-level DIMACS reader:
// comment lines before the header and between clauses (also after blank lines), free whitespace
// between tokens, several clauses per line, clauses spread over lines, optional CRLF, optional
// missing final newline.
func DimacsLayout(r *Rng, cnf [][]int, n int) string {
	var sb strings.Builder
	rich := r.Chance(2, 3)
	nl := "\n"
	if r.Chance(1, 6) {
		nl = "\r\n"
	}
	for k := r.Intn(3); k > 0 && rich; k-- {
		sb.WriteString(comment(r, "c") + nl)
	}
	fmt.Fprintf(&sb, "p%scnf%s%d%s%d", ws(r, rich), ws(r, rich), n, ws(r, rich), len(cnf))
	if rich && r.Chance(1, 4) {
		sb.WriteString(" ")
	}
	sb.WriteString(nl)
	atLineStart := true
	for i, c := range cnf {
		if rich && atLineStart && r.Chance(1, 6) {
			if r.Chance(1, 3) {
				sb.WriteString(nl) // blank line, then a comment
			}
			sb.WriteString(comment(r, "c") + nl)
		}
		for _, l := range c {
			fmt.Fprintf(&sb, "%d", l)
			if rich && r.Chance(1, 8) {
				sb.WriteString(nl) // the clause goes on on the next line
			} else {
				sb.WriteString(ws(r, rich))
			}
		}
		sb.WriteString("0")
		atLineStart = false
		last := i == len(cnf)-1
		if rich && !last && r.Chance(1, 6) {
			sb.WriteString(ws(r, rich)) // next clause on the same line
		} else if last && rich && r.Chance(1, 3) {
			// no final newline
		} else {
			sb.WriteString(nl)
			atLineStart = true
			if rich && r.Chance(1, 10) && !last {
				sb.WriteString(nl) // blank line
			}
		}
	}
	return sb.String()
}

// DimacsLineLayout renders cnf for a line-based DIMACS reader: one clause per line, comment and blank
// lines anywhere after the header, extra spaces and tabs.
func DimacsLineLayout(r *Rng, cnf [][]int, n int) string {
	var sb strings.Builder
	rich := r.Chance(2, 3)
	for k := r.Intn(3); k > 0 && rich; k-- {
		sb.WriteString(comment(r, "c") + "\n")
	}
	fmt.Fprintf(&sb, "p%scnf%s%d%s%d\n", ws(r, rich), ws(r, rich), n, ws(r, rich), len(cnf))
	for _, c := range cnf {
		if rich && r.Chance(1, 6) {
			sb.WriteString(comment(r, "c") + "\n")
		}
		if rich && r.Chance(1, 10) {
			sb.WriteString("\n")
		}
		if rich && r.Chance(1, 6) {
			sb.WriteString(ws(r, rich))
		}
		for _, l := range c {
			fmt.Fprintf(&sb, "%d%s", l, ws(r, rich))
		}
		sb.WriteString("0")
		if rich && r.Chance(1, 6) {
			sb.WriteString(" ")
		}
		sb.WriteString("\n")
	}
	return sb.String()
}

// OPBLayout renders p (relations >= and = only, <= is rewritten) as OPB: '*' comment lines anywhere,
// optional min: line, terms "[+|-]c [~]xN", free spacing between tokens, optional space before ';'.
func OPBLayout(r *Rng, p *ref.Problem) string {
	var sb strings.Builder
	rich := r.Chance(2, 3)
	term := func(w, l int, first bool) {
		sign := ""
		if w >= 0 && (!first || r.Bool()) {
			sign = "+"
		}
		name := fmt.Sprintf("x%d", l)
		if l < 0 {
			name = fmt.Sprintf("~x%d", -l)
		}
		fmt.Fprintf(&sb, "%s%d%s%s%s", sign, w, ws(r, rich), name, ws(r, rich))
	}
	end := func() {
		if r.Bool() {
			sb.WriteString(";\n")
		} else {
			// the separator written by term() is already there
			sb.WriteString(";\n")
		}
	}
	if r.Bool() {
		fmt.Fprintf(&sb, "* #variable= %d #constraint= %d\n", p.N, len(p.Cons))
	}
	for k := r.Intn(3); k > 0 && rich; k-- {
		sb.WriteString(comment(r, "*") + "\n")
	}
	if p.HasCost {
		sb.WriteString("min:" + ws(r, rich))
		for i, l := range p.CostLits {
			w := 1
			if p.CostW != nil {
				w = p.CostW[i]
			}
			term(w, l, i == 0)
		}
		end()
	}
	for _, c := range p.Cons {
		if rich && r.Chance(1, 6) {
			sb.WriteString(comment(r, "*") + "\n")
		}
		if rich && r.Chance(1, 10) {
			sb.WriteString("\n")
		}
		if rich && r.Chance(1, 8) {
			sb.WriteString(" ")
		}
		sign := 1
		if c.Rel == ref.LE {
			sign = -1
		}
		for i, l := range c.Lits {
			w := 1
			if c.Coefs != nil {
				w = c.Coefs[i]
			}
			term(sign*w, l, i == 0)
		}
		rhs := sign * c.Rhs
		rel := ">="
		if c.Rel == ref.EQ {
			rel = "="
		}
		rhsText := fmt.Sprint(rhs)
		if rhs >= 0 && r.Chance(1, 4) {
			rhsText = "+" + rhsText
		}
		fmt.Fprintf(&sb, "%s%s%s", rel, ws(r, rich), rhsText)
		if r.Bool() {
			sb.WriteString(ws(r, rich))
		}
		sb.WriteString(";\n")
	}
	return sb.String()
}

// WCNFLayout renders a MaxSAT instance whose constraints are clauses as WCNF: 'c' lines, header with or
// without top weight, weight-first clause lines ending in 0, free spacing.
func WCNFLayout(r *Rng, m *MaxSat, declared int, withTop bool) string {
	var sb strings.Builder
	rich := r.Chance(2, 3)
	top := 0
	if withTop {
		top = 1 + r.Intn(3)
		for _, w := range m.W {
			top += w
		}
	}
	for k := r.Intn(3); k > 0 && rich; k-- {
		sb.WriteString(comment(r, "c") + "\n")
	}
	fmt.Fprintf(&sb, "p%swcnf%s%d%s%d", ws(r, rich), ws(r, rich), declared, ws(r, rich), len(m.Hard)+len(m.Soft))
	if withTop {
		fmt.Fprintf(&sb, "%s%d", ws(r, rich), top)
	}
	sb.WriteString("\n")
	line := func(w int, c ref.Lin) {
		if rich && r.Chance(1, 6) {
			sb.WriteString(comment(r, "c") + "\n")
		}
		if rich && r.Chance(1, 10) {
			sb.WriteString("\n")
		}
		fmt.Fprintf(&sb, "%d%s", w, ws(r, rich))
		for _, l := range c.Lits {
			fmt.Fprintf(&sb, "%d%s", l, ws(r, rich))
		}
		sb.WriteString("0\n")
	}
	i, j := 0, 0
	for i < len(m.Hard) || j < len(m.Soft) {
		if i < len(m.Hard) && (j >= len(m.Soft) || r.Bool()) {
			line(top, m.Hard[i])
			i++
		} else {
			line(m.W[j], m.Soft[j])
			j++
		}
	}
	return sb.String()
}
