package gen

// CNFOpts tunes RandomCNF.
type CNFOpts struct {
	MinVars, MaxVars int
	MaxLen           int  // maximal clause length
	Weird            bool // allow duplicate literals, tautologies, empty clauses, unit chains
}

// RandomCNF draws a CNF over n variables (returned) with a density swept from under- to over-constrained.
// The result may declare more variables than it uses.
func RandomCNF(r *Rng, o CNFOpts) (cnf [][]int, n int) {
	n = r.Range(o.MinVars, o.MaxVars)
	if n < 1 {
		n = 1
	}
	maxLen := o.MaxLen
	if maxLen < 1 {
		maxLen = 3
	}
	shape := r.Intn(10)
	var nbClauses int
	switch {
	case shape < 2: // under-constrained
		nbClauses = r.Range(0, n)
	case shape < 7: // around the threshold for the chosen length
		nbClauses = r.Range(2*n, 5*n)
	default: // over-constrained
		nbClauses = r.Range(4*n, 8*n)
	}
	used := n
	if o.Weird && r.Chance(1, 5) && n > 1 { // leave some declared variables unused
		used = r.Range(1, n)
	}
	k := r.Range(2, maxLen)
	if k > used {
		k = used
	}
	mixed := r.Chance(1, 3)
	for i := 0; i < nbClauses; i++ {
		l := k
		if mixed {
			l = r.Range(1, maxLen)
		}
		var c []int
		if o.Weird && r.Chance(1, 12) {
			// free-form clause: literals drawn with replacement (duplicates, tautologies)
			c = make([]int, l)
			for j := range c {
				c[j] = r.Lit(used)
			}
		} else {
			c = r.DistinctLits(used, l)
		}
		cnf = append(cnf, c)
	}
	if o.Weird {
		if r.Chance(1, 6) { // planted unit chain: x1, x1->x2, ...
			p := r.Perm(used)
			ln := r.Range(1, min(4, used))
			prev := 0
			for i := 0; i < ln; i++ {
				lit := p[i] + 1
				if r.Bool() {
					lit = -lit
				}
				if prev == 0 {
					cnf = append(cnf, []int{lit})
				} else {
					cnf = append(cnf, []int{-prev, lit})
				}
				prev = lit
			}
		}
		if r.Chance(1, 10) {
			cnf = append(cnf, []int{r.Lit(used)})
		}
		if r.Chance(1, 8) && used >= 2 { // gadgets (x|y)(x|~y): every conflict learns a unit clause
			for g := r.Range(1, 6); g > 0; g-- {
				l := r.DistinctLits(used, 2)
				cnf = append(cnf, []int{l[0], l[1]}, []int{l[0], -l[1]})
			}
		}
		if r.Chance(1, 60) {
			cnf = append(cnf, []int{})
		}
		if r.Chance(1, 4) { // shuffle clause order
			p := r.Perm(len(cnf))
			c2 := make([][]int, len(cnf))
			for i, j := range p {
				c2[i] = cnf[j]
			}
			cnf = c2
		}
	}
	return cnf, n
}

// Random3SAT draws a uniform k-SAT instance with the given clause/variable ratio (in 1/100).
func Random3SAT(r *Rng, n, k, ratio100 int) [][]int {
	m := n * ratio100 / 100
	cnf := make([][]int, m)
	for i := range cnf {
		cnf[i] = r.DistinctLits(n, k)
	}
	return cnf
}

// Planted3SAT draws m random 3-clauses over n variables that a hidden random assignment satisfies.
func Planted3SAT(r *Rng, n, m int) [][]int {
	hidden := make([]bool, n+1)
	for i := range hidden {
		hidden[i] = r.Bool()
	}
	cnf := make([][]int, 0, m)
	for len(cnf) < m {
		c := r.DistinctLits(n, 3)
		for _, l := range c {
			if (l > 0 && hidden[l]) || (l < 0 && !hidden[-l]) {
				cnf = append(cnf, c)
				break
			}
		}
	}
	return cnf
}

// RepeatClauses turns cnf into a multiset with repeated members: a unit clause (an existing one, or a new one
// over n variables) written 3 to 5 times, and up to two other clauses written twice or three times, each copy
// at a random position. Copies are fresh slices.
func RepeatClauses(r *Rng, cnf [][]int, n int) [][]int {
	insert := func(c []int) {
		i := r.Intn(len(cnf) + 1)
		cnf = append(cnf, nil)
		copy(cnf[i+1:], cnf[i:])
		cnf[i] = append([]int{}, c...)
	}
	var units [][]int
	for _, c := range cnf {
		if len(c) == 1 {
			units = append(units, c)
		}
	}
	var u []int
	if len(units) > 0 && r.Chance(2, 3) {
		u = units[r.Intn(len(units))]
	} else if n > 0 {
		u = []int{r.Lit(n)}
		insert(u)
	}
	if u != nil {
		for k := r.Range(2, 4); k > 0; k-- {
			insert(u)
		}
	}
	for k := r.Intn(3); k > 0 && len(cnf) > 0; k-- {
		c := cnf[r.Intn(len(cnf))]
		for j := r.Range(1, 2); j > 0; j-- {
			insert(c)
		}
	}
	return cnf
}

// Pigeonhole returns the CNF stating that p pigeons fit in h holes.
func Pigeonhole(p, h int) (cnf [][]int, n int) {
	v := func(i, j int) int { return i*h + j + 1 }
	for i := 0; i < p; i++ {
		c := make([]int, h)
		for j := 0; j < h; j++ {
			c[j] = v(i, j)
		}
		cnf = append(cnf, c)
	}
	for j := 0; j < h; j++ {
		for i := 0; i < p; i++ {
			for i2 := i + 1; i2 < p; i2++ {
				cnf = append(cnf, []int{-v(i, j), -v(i2, j)})
			}
		}
	}
	return cnf, p * h
}

func min(a, b int) int {
	if a < b {
		return a
	}
	return b
}

func max(a, b int) int {
	if a > b {
		return a
	}
	return b
}

// Ladder returns an unsatisfiable formula made of wide, nested clauses over 2m+1 variables: its natural
// refutation learns clauses of up to m literals, each needed to derive the next one. Variables are renamed
// and polarities flipped at random, and the clause order is shuffled.
func Ladder(r *Rng, m int) (cnf [][]int, n int) {
	n = 2*m + 1
	prefix := func(j int) []int {
		cl := make([]int, j)
		for i := range cl {
			cl[i] = i + 1
		}
		return cl
	}
	cnf = append(cnf, append(prefix(m), 2*m), append(prefix(m), -2*m))
	for j := m - 1; j >= 1; j-- {
		cnf = append(cnf, append(prefix(j), -(j+1), m+j), append(prefix(j), -(j+1), -(m+j)))
	}
	cnf = append(cnf, []int{-1, n}, []int{-1, -n})
	ren := r.Perm(n)
	flip := make([]bool, n)
	for i := range flip {
		flip[i] = r.Chance(1, 3)
	}
	for _, cl := range cnf {
		for i, l := range cl {
			v := l
			if v < 0 {
				v = -v
			}
			nv := ren[v-1] + 1
			if (l < 0) != flip[v-1] {
				nv = -nv
			}
			cl[i] = nv
		}
	}
	p := r.Perm(len(cnf))
	c2 := make([][]int, len(cnf))
	for i, j := range p {
		c2[i] = cnf[j]
	}
	return c2, n
}
