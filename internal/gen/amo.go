package gen

import "verif/internal/ref"

// RandomAMOProblem draws a problem rich in binary clauses: complete and incomplete cliques of
// (mostly negative) literals, overlapping cliques, repeated binary clauses, binary clauses in no
// clique, literals with exactly one or two binary partners, plus longer clauses and, when pb is
// set, cardinality / PB constraints.
func RandomAMOProblem(r *Rng, maxVars int, pb bool) *ref.Problem {
	n := r.Range(3, maxVars)
	p := &ref.Problem{N: n}
	addClique := func() {
		k := r.Range(2, min(n, 5))
		lits := r.DistinctLits(n, k)
		if r.Chance(3, 4) { // the usual pairwise at-most-one: all literals negative
			for i := range lits {
				if lits[i] > 0 {
					lits[i] = -lits[i]
				}
			}
		}
		drop := -1
		if k >= 3 && r.Chance(1, 3) { // incomplete clique: one pair missing
			drop = r.Intn(k * (k - 1) / 2)
		}
		idx := 0
		for i := 0; i < k; i++ {
			for j := i + 1; j < k; j++ {
				if idx != drop {
					if r.Bool() {
						p.Cons = append(p.Cons, ref.Cl(lits[i], lits[j]))
					} else {
						p.Cons = append(p.Cons, ref.Cl(lits[j], lits[i]))
					}
				}
				idx++
			}
		}
		if r.Chance(1, 3) { // at least one of them: exactly-one encodings
			pos := make([]int, k)
			for i, l := range lits {
				pos[i] = -l
			}
			p.Cons = append(p.Cons, ref.Cl(pos...))
		}
	}
	for k := r.Range(1, 3); k > 0; k-- {
		addClique()
	}
	for k := r.Intn(4); k > 0; k-- { // binaries in no clique
		p.Cons = append(p.Cons, ref.Cl(r.DistinctLits(n, 2)...))
	}
	if r.Chance(1, 3) && len(p.Cons) > 0 { // repeated binary clause
		c := p.Cons[r.Intn(len(p.Cons))]
		p.Cons = append(p.Cons, c.Clone())
	}
	for k := r.Intn(4); k > 0; k-- { // longer clauses
		p.Cons = append(p.Cons, ref.Cl(r.DistinctLits(n, r.Range(3, min(n, 4)))...))
	}
	if pb {
		for k := r.Range(1, 3); k > 0; k-- {
			if r.Bool() {
				p.Cons = append(p.Cons, RandomCard(r, n, false))
			} else {
				p.Cons = append(p.Cons, RandomPB(r, n, PBOpts{MaxW: 3, NegCoefs: true}))
			}
		}
	}
	// shuffle
	perm := r.Perm(len(p.Cons))
	c2 := make([]ref.Lin, len(p.Cons))
	for i, j := range perm {
		c2[i] = p.Cons[j]
	}
	p.Cons = c2
	return p
}
