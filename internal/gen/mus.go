package gen

// RandomMUSInput draws a small CNF for MUS extraction: unit clauses, repeated clauses, several
// overlapping or disjoint minimal cores, trivially conflicting units, or one big core; about a
// quarter of the inputs are satisfiable.
func RandomMUSInput(r *Rng, maxVars, maxClauses int) (cnf [][]int, n int) {
	n = r.Range(1, maxVars)
	addCore := func() {
		switch r.Intn(6) {
		case 5: // a unit clause (often written with its literal repeated) gating all sign patterns over two other variables:
			// the unit is needed for unsatisfiability and unit propagation alone does not refute the problem
			if n >= 3 {
				l := r.DistinctLits(n, 3)
				u := []int{l[0]}
				for k := r.Intn(3); k > 0; k-- {
					u = append(u, l[0])
				}
				cnf = append(cnf, u)
				for m := 0; m < 4; m++ {
					c := []int{-l[0], l[1], l[2]}
					if m&1 == 1 {
						c[1] = -c[1]
					}
					if m&2 == 2 {
						c[2] = -c[2]
					}
					cnf = append(cnf, c)
				}
			}
		case 0: // conflicting units
			v := r.Intn(n) + 1
			cnf = append(cnf, []int{v}, []int{-v})
		case 1: // all sign patterns over two variables
			if n >= 2 {
				l := r.DistinctLits(n, 2)
				cnf = append(cnf, []int{l[0], l[1]}, []int{l[0], -l[1]}, []int{-l[0], l[1]}, []int{-l[0], -l[1]})
			}
		case 2: // implication chain closed by units
			k := r.Range(2, min(n, 5))
			l := r.DistinctLits(n, k)
			cnf = append(cnf, []int{l[0]})
			for i := 1; i < len(l); i++ {
				cnf = append(cnf, []int{-l[i-1], l[i]})
			}
			cnf = append(cnf, []int{-l[len(l)-1]})
		case 3: // all sign patterns over three variables
			if n >= 3 {
				l := r.DistinctLits(n, 3)
				for m := 0; m < 8; m++ {
					c := make([]int, 3)
					for j := 0; j < 3; j++ {
						c[j] = l[j]
						if m>>uint(j)&1 == 1 {
							c[j] = -c[j]
						}
					}
					cnf = append(cnf, c)
				}
			}
		case 4: // small pigeonhole 3 into 2 on fresh numbering when room
			if n >= 6 {
				ph, _ := Pigeonhole(3, 2)
				cnf = append(cnf, ph...)
			}
		}
	}
	switch r.Intn(8) {
	case 0, 1: // random, probably satisfiable
		for k := r.Range(1, 2*n); k > 0; k-- {
			cnf = append(cnf, r.DistinctLits(n, r.Range(1, min(3, n))))
		}
	case 2, 3: // dense random: probably unsatisfiable
		for k := r.Range(3*n, 5*n+2); k > 0; k-- {
			cnf = append(cnf, r.DistinctLits(n, r.Range(1, min(3, n))))
		}
	default: // planted cores plus noise
		for k := r.Range(1, 3); k > 0; k-- {
			addCore()
		}
		for k := r.Intn(n + 2); k > 0; k-- {
			cnf = append(cnf, r.DistinctLits(n, r.Range(1, min(3, n))))
		}
	}
	if len(cnf) > 1 && r.Chance(1, 3) { // repeated clauses
		for k := r.Range(1, 3); k > 0; k-- {
			c := cnf[r.Intn(len(cnf))]
			cnf = append(cnf, append([]int{}, c...))
		}
	}
	if len(cnf) > 0 && r.Chance(1, 3) { // clauses written with a repeated literal or a complementary pair
		for k := r.Range(1, 2); k > 0; k-- {
			i := r.Intn(len(cnf))
			c := append([]int{}, cnf[i]...)
			if len(c) == 0 {
				continue
			}
			x := c[r.Intn(len(c))]
			if r.Chance(1, 2) {
				x = -x
			}
			pos := r.Intn(len(c) + 1)
			c = append(c[:pos], append([]int{x}, c[pos:]...)...)
			cnf[i] = c
		}
	}
	// shuffle
	p := r.Perm(len(cnf))
	c2 := make([][]int, len(cnf))
	for i, j := range p {
		c2[i] = cnf[j]
	}
	cnf = c2
	if len(cnf) > maxClauses {
		cnf = cnf[:maxClauses]
	}
	if r.Chance(1, 12) { // the empty clause, alone a minimal core
		pos := r.Intn(len(cnf) + 1)
		cnf = append(cnf[:pos:pos], append([][]int{{}}, cnf[pos:]...)...)
	}
	return cnf, n
}
