package gen

import "verif/internal/ref"

// PBOpts tunes the cardinality / pseudo-boolean generators.
type PBOpts struct {
	MinVars, MaxVars int
	MaxW             int  // coefficients are drawn in [-MaxW, MaxW] (0 included) when NegCoefs, else [0, MaxW]
	NegCoefs         bool // allow negative coefficients
	CardOnly         bool // only unit-coefficient constraints
	NoLE             bool // only >= and = (OPB syntax)
	MaxCons          int
	Hard             bool // many mid-degree constraints and no planted units: conflicts during search
}

// RandomCard draws a unit-coefficient constraint over distinct variables of 1..n.
func RandomCard(r *Rng, n int, noLE bool) ref.Lin {
	k := r.Range(1, min(n, 6))
	if r.Chance(1, 8) {
		k = min(n, r.Range(5, 9))
	}
	lits := r.DistinctLits(n, k)
	k = len(lits)
	c := ref.Lin{Lits: lits}
	switch r.Intn(10) {
	case 0, 1, 2: // clause
		c.Rel, c.Rhs = ref.GE, 1
	case 3: // at most one
		c.Rel, c.Rhs = ref.LE, 1
	case 4: // exactly one
		c.Rel, c.Rhs = ref.EQ, 1
	case 5: // unit-like: all literals needed
		c.Rel, c.Rhs = ref.GE, k
	case 6: // degree outside the useful range: <= 0, > len
		c.Rel = ref.Rel(r.Intn(3))
		c.Rhs = []int{-1, 0, k + 1, k, k - 1}[r.Intn(5)]
	default:
		c.Rel = ref.Rel(r.Intn(3))
		c.Rhs = r.Range(0, k)
	}
	if noLE && c.Rel == ref.LE {
		c.Rel = ref.GE
	}
	return c
}

// RandomPB draws a weighted linear constraint over distinct variables of 1..n.
func RandomPB(r *Rng, n int, o PBOpts) ref.Lin {
	k := r.Range(1, min(n, 6))
	lits := r.DistinctLits(n, k)
	k = len(lits)
	w := o.MaxW
	if w < 1 {
		w = 4
	}
	c := ref.Lin{Lits: lits, Coefs: make([]int, k)}
	lo, hi := 0, 0
	for i := range c.Coefs {
		if o.NegCoefs {
			c.Coefs[i] = r.Range(-w, w)
		} else {
			c.Coefs[i] = r.Range(0, w)
		}
		if r.Chance(1, 10) {
			c.Coefs[i] = c.Coefs[r.Intn(i+1)] // repeated coefficient values
		}
		if c.Coefs[i] > 0 {
			hi += c.Coefs[i]
		} else {
			lo += c.Coefs[i]
		}
	}
	c.Rel = ref.Rel(r.Intn(3))
	if o.NoLE && c.Rel == ref.LE {
		c.Rel = ref.GE
	}
	switch r.Intn(8) {
	case 0: // trivially true or false region
		c.Rhs = []int{lo - 1, lo, hi, hi + 1}[r.Intn(4)]
	case 1: // exactly a coefficient
		c.Rhs = c.Coefs[r.Intn(k)]
	default:
		c.Rhs = r.Range(lo, hi)
	}
	return c
}

// RandomPBProblem draws a conjunction of cardinality / PB constraints, mixed with unit constraints.
func RandomPBProblem(r *Rng, o PBOpts) *ref.Problem {
	n := r.Range(o.MinVars, o.MaxVars)
	if n < 1 {
		n = 1
	}
	maxCons := o.MaxCons
	if maxCons == 0 {
		maxCons = 8
	}
	m := r.Range(1, maxCons)
	p := &ref.Problem{N: n}
	if o.Hard {
		n = r.Range(max(o.MinVars, 6), max(o.MaxVars, 6))
		m = r.Range(n, 2*n)
		p.N = n
		for i := 0; i < m; i++ {
			var c ref.Lin
			if o.CardOnly || r.Bool() {
				k := r.Range(3, min(n, 6))
				c = ref.Lin{Lits: r.DistinctLits(n, k), Rel: ref.Rel(r.Intn(3)), Rhs: r.Range(k/2, k/2+1)}
				if r.Chance(1, 3) {
					c.Rel, c.Rhs = ref.GE, 1
				}
			} else {
				c = RandomPB(r, n, o)
				lo, hi := 0, 0
				for _, w := range c.Coefs {
					if w > 0 {
						hi += w
					} else {
						lo += w
					}
				}
				c.Rhs = (lo+hi)/2 + r.Range(-1, 1)
			}
			if o.NoLE && c.Rel == ref.LE {
				c.Rel = ref.GE
			}
			p.Cons = append(p.Cons, c)
		}
		return p
	}
	weightedShare := r.Intn(4) // 0: mostly cardinality ... 3: mostly weighted
	for i := 0; i < m; i++ {
		var c ref.Lin
		if o.CardOnly || r.Intn(4) > weightedShare {
			c = RandomCard(r, n, o.NoLE)
		} else {
			c = RandomPB(r, n, o)
		}
		p.Cons = append(p.Cons, c)
	}
	// unit constraints that make the parse-time simplifier meet already true / false literals
	for u := r.Intn(3); u > 0 && r.Chance(1, 2); u-- {
		c := ref.Lin{Lits: []int{r.Lit(n)}, Rel: ref.GE, Rhs: 1}
		pos := r.Intn(len(p.Cons) + 1)
		p.Cons = append(p.Cons, ref.Lin{})
		copy(p.Cons[pos+1:], p.Cons[pos:])
		p.Cons[pos] = c
	}
	return p
}

// RandomCost draws a cost function over distinct variables of 1..n with weights in [0,maxW]
// (or [-maxW,maxW] when neg). unit requests nil weights.
func RandomCost(r *Rng, n, maxW int, neg, unit bool) (lits []int, weights []int) {
	k := r.Range(1, n)
	lits = r.DistinctLits(n, k)
	if unit {
		return lits, nil
	}
	weights = make([]int, len(lits))
	for i := range weights {
		if neg {
			weights[i] = r.Range(-maxW, maxW)
		} else {
			weights[i] = r.Range(0, maxW)
		}
	}
	return lits, weights
}

// RandomObjectiveProblem draws a PB problem with a full-length objective (every variable, mostly positive
// literals, weights 1..6) so that optimisation needs several improvement steps.
func RandomObjectiveProblem(r *Rng, minVars, maxVars int) *ref.Problem {
	p := RandomPBProblem(r, PBOpts{MinVars: minVars, MaxVars: maxVars, MaxW: r.Range(1, 4), NegCoefs: r.Bool(), MaxCons: 6, Hard: r.Chance(1, 2)})
	if mv := p.MaxVar(); mv > p.N {
		p.N = mv
	}
	n := p.N
	p.HasCost = true
	p.CostLits = make([]int, n)
	p.CostW = make([]int, n)
	for v := 1; v <= n; v++ {
		p.CostLits[v-1] = v
		if r.Chance(1, 4) {
			p.CostLits[v-1] = -v
		}
		p.CostW[v-1] = r.Range(1, 6)
	}
	return p
}

// RandomSoftClauseProblem draws a problem shaped like a relaxed MaxSAT instance: nbSoft clauses, each with its own
// relaxation variable, a few hard clauses, and the objective "sum of weighted relaxation variables".
func RandomSoftClauseProblem(r *Rng, nbVars, nbSoft int) *ref.Problem {
	p := &ref.Problem{N: nbVars + nbSoft, HasCost: true}
	for k := r.Intn(4); k > 0; k-- {
		p.Cons = append(p.Cons, ref.Cl(r.DistinctLits(nbVars, r.Range(2, 3))...))
	}
	for i := 0; i < nbSoft; i++ {
		lits := r.DistinctLits(nbVars, r.Range(1, 3))
		relax := nbVars + i + 1
		p.Cons = append(p.Cons, ref.Cl(append(lits, relax)...))
		p.CostLits = append(p.CostLits, relax)
		p.CostW = append(p.CostW, r.Range(1, 5))
	}
	return p
}
