package gen

import (
	"fmt"
	"strings"

	"verif/internal/ref"
)

// FormulaOpts tunes RandomFormula.
type FormulaOpts struct {
	MaxDepth int
	NbVars   int  // variable names v1..vN (groups use their own pool g1..gM when GroupPool)
	Consts   bool // allow true/false constants and empty and/or
	Xor      bool
	Seq      bool // allow the ';' conjunction (text syntax)
	NegUniq  bool // allow exactly-one groups in negative position
	MaxGroup int  // maximal size of an exactly-one group (0: no groups)
	TextOnly bool // only connectives the text syntax can write (binary and/or, no constants, no xor)
}

func varName(i int) string { return fmt.Sprintf("v%d", i) }

// RandomFormula draws a formula tree. neg tells whether the position is under an odd number of negations
// (or inside an equivalence / xor / left of an implication, which use both polarities).
func RandomFormula(r *Rng, o FormulaOpts, depth int, neg bool) *ref.F {
	leaf := func() *ref.F {
		if o.Consts && r.Chance(1, 12) {
			if r.Bool() {
				return &ref.F{Op: "true"}
			}
			return &ref.F{Op: "false"}
		}
		if o.MaxGroup > 0 && (!neg || o.NegUniq) && r.Chance(1, 8) {
			k := r.Range(1, o.MaxGroup)
			if o.Consts && r.Chance(1, 15) {
				k = 0
			}
			if k > o.NbVars {
				k = o.NbVars
			}
			p := r.Perm(o.NbVars)
			names := make([]string, k)
			for i := range names {
				names[i] = varName(p[i] + 1)
			}
			if len(names) == 0 && o.TextOnly {
				names = []string{varName(1)}
			}
			return &ref.F{Op: "uniq", Names: names}
		}
		return &ref.F{Op: "var", Name: varName(r.Intn(o.NbVars) + 1)}
	}
	if depth >= o.MaxDepth || r.Chance(1, 5) {
		return leaf()
	}
	sub := func(n bool) *ref.F { return RandomFormula(r, o, depth+1, n) }
	ops := []string{"not", "and", "and", "or", "or", "imp", "eq"}
	if o.Xor {
		ops = append(ops, "xor")
	}
	if o.Seq && depth == 0 {
		ops = append(ops, "seq", "seq")
	}
	op := ops[r.Intn(len(ops))]
	switch op {
	case "not":
		return &ref.F{Op: "not", Kids: []*ref.F{sub(!neg)}}
	case "and", "or", "seq":
		k := 2
		if !o.TextOnly {
			k = r.Range(1, 4)
			if o.Consts && r.Chance(1, 15) {
				k = 0
			}
		}
		f := &ref.F{Op: op}
		for i := 0; i < k; i++ {
			kid := sub(neg)
			if op == "seq" && i == 1 && r.Chance(1, 2) { // a ; b ; c as right nesting
				kid = &ref.F{Op: "seq", Kids: []*ref.F{RandomFormula(r, o, depth+1, neg), RandomFormula(r, o, depth+1, neg)}}
			}
			f.Kids = append(f.Kids, kid)
		}
		return f
	case "imp":
		return &ref.F{Op: "imp", Kids: []*ref.F{sub(!neg), sub(neg)}}
	default: // eq, xor: both polarities of both sides
		if o.MaxGroup > 0 && !o.NegUniq {
			// groups must stay in positive position: no groups below an equivalence
			o2 := o
			o2.MaxGroup = 0
			return &ref.F{Op: op, Kids: []*ref.F{RandomFormula(r, o2, depth+1, true), RandomFormula(r, o2, depth+1, true)}}
		}
		return &ref.F{Op: op, Kids: []*ref.F{sub(true), sub(true)}}
	}
}

// priority of the operators of the text syntax; higher binds tighter.
func prio(op string) int {
	switch op {
	case "seq":
		return 0
	case "eq":
		return 1
	case "imp":
		return 2
	case "or":
		return 3
	case "and":
		return 4
	case "not":
		return 5
	}
	return 6 // atoms
}

var opText = map[string]string{"seq": ";", "eq": "=", "imp": "->", "or": "|", "and": "&"}

// RenderTokens writes f (binary and/or/imp/eq/seq, not, var, uniq) as tokens of the text syntax.
// style 0: minimal parentheses by the documented priorities and right nesting; 1: some redundant ones; 2: full.
// ';' is only written bare at the top level or inside parentheses.
func RenderTokens(r *Rng, f *ref.F, style int) []string {
	var out []string
	var rec func(f *ref.F, minPrio int, top bool)
	rec = func(f *ref.F, minPrio int, top bool) {
		p := prio(f.Op)
		need := p < minPrio
		if !need && p < 6 {
			switch style {
			case 1:
				need = r.Chance(1, 4)
			case 2:
				need = !top
			}
		} else if !need && style == 1 && r.Chance(1, 10) {
			need = true // redundant parentheses around an atom
		}
		if need {
			out = append(out, "(")
		}
		switch f.Op {
		case "var":
			out = append(out, f.Name)
		case "uniq":
			out = append(out, "{")
			for i, n := range f.Names {
				if i > 0 {
					out = append(out, ",")
				}
				out = append(out, n)
			}
			out = append(out, "}")
		case "not":
			out = append(out, "^")
			rec(f.Kids[0], 5, false)
		default:
			// left operand must bind strictly tighter (repetition nests to the right), right operand at least as tight
			rec(f.Kids[0], p+1, false)
			out = append(out, opText[f.Op])
			rec(f.Kids[1], p, false)
		}
		if need {
			out = append(out, ")")
		}
	}
	rec(f, 0, true)
	return out
}

// JoinTokens writes tokens with random legal whitespace (mode 0: minimal, 1: single spaces, 2: mixed spaces, tabs, newlines).
func JoinTokens(r *Rng, toks []string, mode int) string {
	var sb strings.Builder
	isWord := func(t string) bool {
		c := t[0]
		return c == '_' || (c >= 'a' && c <= 'z') || (c >= 'A' && c <= 'Z')
	}
	seps := []string{" ", "\t", "\n", " "}
	if mode == 2 && r.Chance(1, 3) { // a file with CRLF line ends: the carriage return is white space too
		seps = []string{" ", "\t", "\r\n", " ", "\r\n"}
	}
	for i, t := range toks {
		if i > 0 {
			switch mode {
			case 0:
				if isWord(t) && isWord(toks[i-1]) {
					sb.WriteByte(' ')
				}
			case 1:
				sb.WriteByte(' ')
			default:
				for k := r.Intn(3); k >= 0; k-- {
					sb.WriteString(seps[r.Intn(len(seps))])
				}
			}
		}
		sb.WriteString(t)
	}
	if mode == 2 && r.Bool() {
		sb.WriteString(seps[2])
	}
	return sb.String()
}

// DuplicateInGroup makes one exactly-one group of f list one of its variables twice (a group of >= 2 names is
// needed); it reports whether it did. What such a group means is not documented: the callers judge those
// formulas by the library's own Eval instead of the reference semantics.
func DuplicateInGroup(r *Rng, f *ref.F) bool {
	var groups []*ref.F
	var walk func(g *ref.F)
	walk = func(g *ref.F) {
		if g.Op == "uniq" && len(g.Names) >= 2 {
			groups = append(groups, g)
		}
		for _, k := range g.Kids {
			walk(k)
		}
	}
	walk(f)
	if len(groups) == 0 {
		return false
	}
	g := groups[r.Intn(len(groups))]
	i := r.Intn(len(g.Names))
	j := (i + 1 + r.Intn(len(g.Names)-1)) % len(g.Names)
	g.Names[j] = g.Names[i]
	if r.Chance(1, 3) { // one more copy at the end
		g.Names = append(g.Names, g.Names[i])
	}
	return true
}

// RandomGroupFormula draws a formula holding several large exactly-one groups over overlapping variable
// sets (same variables in another order, same first / last variable and size, shifted windows, as the rows,
// columns and boxes of a grid puzzle do), conjoined with a few literals or clauses. Groups stay in positive
// position unless negOK.
func RandomGroupFormula(r *Rng, negOK bool) *ref.F {
	n := r.Range(5, 9)
	names := func(idx []int) []string {
		res := make([]string, len(idx))
		for i, v := range idx {
			res[i] = varName(v + 1)
		}
		return res
	}
	size := r.Range(5, n)
	base := r.Perm(n)[:size]
	groups := [][]int{append([]int{}, base...)}
	for k := r.Range(1, 2); k > 0; k-- {
		g := append([]int{}, base...)
		switch r.Intn(5) {
		case 0: // same variables, first kept, rest shuffled
			p := r.Perm(size - 1)
			for i, j := range p {
				g[i+1] = base[j+1]
			}
		case 1: // first and last kept, middle shuffled
			p := r.Perm(size - 2)
			for i, j := range p {
				g[i+1] = base[j+1]
			}
		case 2: // one middle variable replaced by a variable outside the group, same size
			if size < n {
				used := map[int]bool{}
				for _, v := range base {
					used[v] = true
				}
				for v := 0; v < n; v++ {
					if !used[v] {
						g[r.Range(1, size-2)] = v
						break
					}
				}
			} else {
				g[1], g[2] = g[2], g[1]
			}
		case 3: // fully shuffled
			p := r.Perm(size)
			for i, j := range p {
				g[i] = base[j]
			}
		default: // another window of the variables, same first variable
			p := r.Perm(n)
			g = g[:0]
			g = append(g, base[0])
			for _, v := range p {
				if v != base[0] && len(g) < size {
					g = append(g, v)
				}
			}
		}
		groups = append(groups, g)
	}
	f := &ref.F{Op: "and"}
	for _, g := range groups {
		var gf *ref.F = &ref.F{Op: "uniq", Names: names(g)}
		if negOK && r.Chance(1, 6) {
			gf = &ref.F{Op: "not", Kids: []*ref.F{gf}}
		}
		f.Kids = append(f.Kids, gf)
	}
	o := FormulaOpts{MaxDepth: 2, NbVars: n, Xor: true}
	for k := r.Intn(3); k > 0; k-- {
		if r.Bool() {
			f.Kids = append(f.Kids, &ref.F{Op: "var", Name: varName(r.Intn(n) + 1)})
		} else {
			f.Kids = append(f.Kids, RandomFormula(r, o, 1, false))
		}
	}
	if r.Chance(1, 4) { // the whole thing as one disjunct
		f = &ref.F{Op: "or", Kids: []*ref.F{f, RandomFormula(r, o, 1, false)}}
	}
	return f
}

// RenameAdversarial renames the variables of f (in place) to names that look like the ones the translation to CNF
// generates for its own auxiliary variables ("dummy-3", "line-0-...", "col-1-..."): a user may use any name.
func RenameAdversarial(r *Rng, f *ref.F) {
	pool := []string{"dummy-1", "dummy-2", "dummy-3", "dummy-4", "dummy-5", "dummy-6", "line-0-v1", "col-0-v1", "line-1-dummy-1", "dummy", "c", "p cnf"}
	perm := r.Perm(len(pool))
	mapping := map[string]string{}
	next := 0
	var rec func(f *ref.F)
	get := func(n string) string {
		if m, ok := mapping[n]; ok {
			return m
		}
		m := n
		if next < len(pool) && r.Chance(2, 3) {
			m = pool[perm[next]]
			next++
		}
		mapping[n] = m
		return m
	}
	rec = func(f *ref.F) {
		if f.Op == "var" {
			f.Name = get(f.Name)
		}
		for i, n := range f.Names {
			f.Names[i] = get(n)
		}
		for _, k := range f.Kids {
			rec(k)
		}
	}
	rec(f)
}
