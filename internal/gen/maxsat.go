package gen

import "verif/internal/ref"

// MaxSat is a weighted partial MaxSAT instance. All constraints are >= constraints.
type MaxSat struct {
	N    int       `json:"n"`
	Hard []ref.Lin `json:"hard"`
	Soft []ref.Lin `json:"soft"`
	W    []int     `json:"w"` // weight of each soft constraint, >= 1
}

// Cost returns the total weight of violated soft constraints, ok=false if a hard constraint is violated.
func (m *MaxSat) Cost(a uint32) (cost int, ok bool) {
	for i := range m.Hard {
		if !m.Hard[i].Eval(a) {
			return 0, false
		}
	}
	for i := range m.Soft {
		if !m.Soft[i].Eval(a) {
			cost += m.W[i]
		}
	}
	return cost, true
}

// Optimum returns the minimal cost over all assignments of n variables; sat=false if the hard part has no model.
func (m *MaxSat) Optimum(n int) (opt int, sat bool) {
	for a := uint32(0); a < 1<<uint(n); a++ {
		if c, ok := m.Cost(a); ok && (!sat || c < opt) {
			opt, sat = c, true
		}
	}
	return opt, sat
}

// MaxVar returns the highest variable used.
func (m *MaxSat) MaxVar() int {
	mv := 0
	for _, c := range m.Hard {
		if v := c.MaxVar(); v > mv {
			mv = v
		}
	}
	for _, c := range m.Soft {
		if v := c.MaxVar(); v > mv {
			mv = v
		}
	}
	return mv
}

func geConstr(r *Rng, n int, clausesOnly bool) ref.Lin {
	k := r.Range(1, min(n, 4))
	lits := r.DistinctLits(n, k)
	k = len(lits)
	shape := r.Intn(10)
	if clausesOnly || shape < 6 {
		return ref.Lin{Lits: lits, Rel: ref.GE, Rhs: 1}
	}
	if shape < 8 { // cardinality, implicit unit coefficients
		if k < 2 {
			lits = r.DistinctLits(n, min(n, 3))
			k = len(lits)
		}
		return ref.Lin{Lits: lits, Rel: ref.GE, Rhs: r.Range(1, k)}
	}
	c := ref.Lin{Lits: lits, Coefs: make([]int, k), Rel: ref.GE}
	lo, hi := 0, 0
	neg := r.Chance(1, 3)
	for i := range c.Coefs {
		c.Coefs[i] = r.Range(1, 4)
		if neg && r.Chance(1, 3) {
			c.Coefs[i] = -r.Range(1, 3)
		}
		if c.Coefs[i] > 0 {
			hi += c.Coefs[i]
		} else {
			lo += c.Coefs[i]
		}
	}
	if k >= 2 && r.Chance(1, 4) { // one null coefficient (the term means nothing, its variable is still the user's)
		z := r.Intn(k - 1) // never the last term: what follows a null coefficient is what GtEq has to get right
		if c.Coefs[z] > 0 {
			hi -= c.Coefs[z]
		} else {
			lo -= c.Coefs[z]
		}
		c.Coefs[z] = 0
	}
	c.Rhs = r.Range(lo+1, max(hi, lo+1))
	if r.Chance(1, 12) { // slack: satisfied by every assignment
		c.Rhs = lo - r.Intn(2)
	}
	return c
}

// SlackConstr returns a constraint over the given fresh variables that every assignment satisfies
// (cardinality "at least 0", or PB with a degree not above the sum of its negative coefficients).
func SlackConstr(r *Rng, vars []int) ref.Lin {
	lits := make([]int, len(vars))
	for i, v := range vars {
		lits[i] = v
		if r.Bool() {
			lits[i] = -v
		}
	}
	if r.Chance(1, 3) {
		return ref.Lin{Lits: lits, Rel: ref.GE, Rhs: -r.Intn(2)}
	}
	c := ref.Lin{Lits: lits, Coefs: make([]int, len(lits)), Rel: ref.GE}
	lo := 0
	for i := range c.Coefs {
		c.Coefs[i] = r.Range(1, 4)
		if r.Chance(2, 3) {
			c.Coefs[i] = -c.Coefs[i]
			lo += c.Coefs[i]
		}
	}
	c.Rhs = lo - r.Intn(2)
	return c
}

// RandomMaxSat draws an instance over 2..maxVars variables.
func RandomMaxSat(r *Rng, maxVars int, clausesOnly bool) *MaxSat {
	n := r.Range(2, maxVars)
	m := &MaxSat{N: n}
	nh := r.Intn(7)
	ns := r.Range(1, 10)
	switch r.Intn(12) {
	case 0:
		ns = 0 // all hard
		nh = r.Range(1, 8)
	case 1:
		nh = 0 // all soft
	case 2, 3: // over-constrained soft part: several improvement steps
		ns = r.Range(12, 30)
	}
	for i := 0; i < nh; i++ {
		m.Hard = append(m.Hard, geConstr(r, n, clausesOnly))
	}
	for i := 0; i < ns; i++ {
		c := geConstr(r, n, clausesOnly)
		if i > 0 && r.Chance(1, 10) { // duplicate soft constraint
			c = m.Soft[r.Intn(i)].Clone()
		}
		m.Soft = append(m.Soft, c)
		m.W = append(m.W, r.Range(1, 5))
	}
	if r.Chance(1, 5) {
		for i := range m.W {
			m.W[i] = 1
		}
	}
	if clausesOnly { // the empty clause is a well-formed WCNF clause: "<weight> 0"
		if len(m.Soft) > 0 && r.Chance(1, 10) {
			m.Soft[r.Intn(len(m.Soft))] = ref.Lin{Lits: []int{}, Rel: ref.GE, Rhs: 1}
		}
		if len(m.Hard) > 0 && r.Chance(1, 40) {
			m.Hard[r.Intn(len(m.Hard))] = ref.Lin{Lits: []int{}, Rel: ref.GE, Rhs: 1}
		}
	}
	return m
}
