// Package ref holds the reference semantics used to judge gophersat's answers.
// It must never import gophersat.
package ref

import (
	"fmt"
	"sort"
	"strings"
)

// Rel is the relation of a linear constraint.
type Rel int

// Relations.
const (
	GE Rel = iota
	LE
	EQ
)

func (r Rel) String() string {
	switch r {
	case GE:
		return ">="
	case LE:
		return "<="
	}
	return "="
}

// Lin is a linear constraint  sum Coefs[i]*[Lits[i]]  Rel  Rhs  over 0/1 literals.
// Coefs == nil means all coefficients are 1. A clause is {Lits, nil, GE, 1}.
type Lin struct {
	Lits  []int `json:"l"`
	Coefs []int `json:"c,omitempty"`
	Rel   Rel   `json:"r"`
	Rhs   int   `json:"k"`
}

// Cl makes a clause.
func Cl(lits ...int) Lin { return Lin{Lits: lits, Rel: GE, Rhs: 1} }

// LitTrue tells whether lit is true under assignment a (bit i-1 = value of variable i).
func LitTrue(lit int, a uint32) bool {
	if lit > 0 {
		return a>>(uint(lit)-1)&1 == 1
	}
	return a>>(uint(-lit)-1)&1 == 0
}

// Sum returns the left-hand side value under a.
func (c Lin) Sum(a uint32) int {
	s := 0
	for i, l := range c.Lits {
		if LitTrue(l, a) {
			if c.Coefs == nil {
				s++
			} else {
				s += c.Coefs[i]
			}
		}
	}
	return s
}

// Eval tells whether c holds under a.
func (c Lin) Eval(a uint32) bool {
	s := c.Sum(a)
	switch c.Rel {
	case GE:
		return s >= c.Rhs
	case LE:
		return s <= c.Rhs
	}
	return s == c.Rhs
}

// MaxVar returns the highest variable mentioned.
func (c Lin) MaxVar() int {
	m := 0
	for _, l := range c.Lits {
		if l < 0 {
			l = -l
		}
		if l > m {
			m = l
		}
	}
	return m
}

// Clone deep-copies c.
func (c Lin) Clone() Lin {
	d := Lin{Rel: c.Rel, Rhs: c.Rhs}
	d.Lits = append([]int(nil), c.Lits...)
	if c.Coefs != nil {
		d.Coefs = append([]int{}, c.Coefs...)
	}
	return d
}

func (c Lin) String() string {
	var sb strings.Builder
	for i, l := range c.Lits {
		w := 1
		if c.Coefs != nil {
			w = c.Coefs[i]
		}
		if l < 0 {
			fmt.Fprintf(&sb, "%+d ~x%d ", w, -l)
		} else {
			fmt.Fprintf(&sb, "%+d x%d ", w, l)
		}
	}
	fmt.Fprintf(&sb, "%s %d", c.Rel, c.Rhs)
	return sb.String()
}

// Problem is a conjunction of linear constraints over variables 1..N with an optional cost function.
type Problem struct {
	N        int   `json:"n"`
	Cons     []Lin `json:"cons"`
	CostLits []int `json:"costLits,omitempty"`
	CostW    []int `json:"costW,omitempty"` // nil with CostLits != nil: unit weights
	HasCost  bool  `json:"hasCost,omitempty"`
}

// Clone deep-copies p.
func (p *Problem) Clone() *Problem {
	q := &Problem{N: p.N, HasCost: p.HasCost}
	for _, c := range p.Cons {
		q.Cons = append(q.Cons, c.Clone())
	}
	if p.CostLits != nil {
		q.CostLits = append([]int{}, p.CostLits...)
	}
	if p.CostW != nil {
		q.CostW = append([]int{}, p.CostW...)
	}
	return q
}

// MaxVar returns the highest variable mentioned in constraints or cost.
func (p *Problem) MaxVar() int {
	m := 0
	for _, c := range p.Cons {
		if v := c.MaxVar(); v > m {
			m = v
		}
	}
	for _, l := range p.CostLits {
		if l < 0 {
			l = -l
		}
		if l > m {
			m = l
		}
	}
	return m
}

// Holds tells whether every constraint holds under a.
func (p *Problem) Holds(a uint32) bool {
	for i := range p.Cons {
		if !p.Cons[i].Eval(a) {
			return false
		}
	}
	return true
}

// FirstViolated returns the index of the first constraint violated by a, or -1.
func (p *Problem) FirstViolated(a uint32) int {
	for i := range p.Cons {
		if !p.Cons[i].Eval(a) {
			return i
		}
	}
	return -1
}

// Cost evaluates the cost function under a.
func (p *Problem) Cost(a uint32) int {
	s := 0
	for i, l := range p.CostLits {
		if LitTrue(l, a) {
			if p.CostW == nil {
				s++
			} else {
				s += p.CostW[i]
			}
		}
	}
	return s
}

// MaxTT is the largest number of variables the truth-table engine accepts.
const MaxTT = 20

// Count returns the number of models over n variables (n >= p.N allowed, n <= MaxTT).
func (p *Problem) Count(n int) int {
	if n > MaxTT {
		panic("ref: truth table too large")
	}
	cnt := 0
	for a := uint32(0); a < 1<<uint(n); a++ {
		if p.Holds(a) {
			cnt++
		}
	}
	return cnt
}

// Models returns all models over n variables in increasing order.
func (p *Problem) Models(n int) []uint32 {
	if n > MaxTT {
		panic("ref: truth table too large")
	}
	var res []uint32
	for a := uint32(0); a < 1<<uint(n); a++ {
		if p.Holds(a) {
			res = append(res, a)
		}
	}
	return res
}

// Sat tells whether a model exists over n variables.
func (p *Problem) Sat(n int) bool {
	if n > MaxTT {
		panic("ref: truth table too large")
	}
	for a := uint32(0); a < 1<<uint(n); a++ {
		if p.Holds(a) {
			return true
		}
	}
	return false
}

// MinCost returns the minimal cost over all models over n variables; ok is false when there is no model.
func (p *Problem) MinCost(n int) (min int, ok bool) {
	if n > MaxTT {
		panic("ref: truth table too large")
	}
	for a := uint32(0); a < 1<<uint(n); a++ {
		if p.Holds(a) {
			c := p.Cost(a)
			if !ok || c < min {
				min, ok = c, true
			}
		}
	}
	return min, ok
}

// Implies tells whether every model of p over n variables satisfies c.
func (p *Problem) Implies(n int, c Lin) bool {
	for a := uint32(0); a < 1<<uint(n); a++ {
		if p.Holds(a) && !c.Eval(a) {
			return false
		}
	}
	return true
}

// BoolsToAssign converts a model given as a slice of booleans (index i = variable i+1).
func BoolsToAssign(m []bool) uint32 {
	var a uint32
	for i, b := range m {
		if b && i < 32 {
			a |= 1 << uint(i)
		}
	}
	return a
}

// AssignString renders an assignment over n variables as a DIMACS-like literal list.
func AssignString(a uint32, n int) string {
	parts := make([]string, n)
	for i := 0; i < n; i++ {
		if a>>uint(i)&1 == 1 {
			parts[i] = fmt.Sprint(i + 1)
		} else {
			parts[i] = fmt.Sprint(-(i + 1))
		}
	}
	return strings.Join(parts, " ")
}

// SortedCopy returns a sorted copy of a list of ints.
func SortedCopy(l []int) []int {
	r := append([]int{}, l...)
	sort.Ints(r)
	return r
}
