package ref

// CNF helpers for instances too large for the truth table: model evaluation on []bool,
// an independent DPLL and an independent RUP checker.

// ClauseSatBools tells whether the clause is satisfied by model (index i = variable i+1).
// Variables beyond len(model) are treated as false.
func ClauseSatBools(clause []int, model []bool) bool {
	for _, l := range clause {
		v := l
		if v < 0 {
			v = -v
		}
		val := v-1 < len(model) && model[v-1]
		if val == (l > 0) {
			return true
		}
	}
	return false
}

// FirstFalsified returns the index of the first clause falsified by model, or -1.
func FirstFalsified(cnf [][]int, model []bool) int {
	for i, c := range cnf {
		if !ClauseSatBools(c, model) {
			return i
		}
	}
	return -1
}

// CNFToProblem converts a clause list to a Problem over n variables.
func CNFToProblem(cnf [][]int, n int) *Problem {
	p := &Problem{N: n}
	for _, c := range cnf {
		p.Cons = append(p.Cons, Cl(append([]int{}, c...)...))
	}
	return p
}

// CloneCNF deep-copies a clause list.
func CloneCNF(cnf [][]int) [][]int {
	res := make([][]int, len(cnf))
	for i, c := range cnf {
		res[i] = append([]int{}, c...)
	}
	return res
}

// dpll state
type dpll struct {
	cnf    [][]int
	val    []int8 // 0 unbound, 1 true, -1 false; index = variable
	budget int64
}

func (d *dpll) litVal(l int) int8 {
	if l > 0 {
		return d.val[l]
	}
	return -d.val[-l]
}

// propagate runs unit propagation; returns false on conflict. Bound variables are appended to trail.
func (d *dpll) propagate(trail *[]int) bool {
	changed := true
	for changed {
		changed = false
		for _, c := range d.cnf {
			d.budget--
			unb := 0
			unit := 0
			sat := false
			for _, l := range c {
				switch d.litVal(l) {
				case 1:
					sat = true
				case 0:
					if unb == 0 || l != unit { // a repeated literal counts once
						unb++
						unit = l
					}
				}
				if sat {
					break
				}
			}
			if sat {
				continue
			}
			if unb == 0 {
				return false
			}
			if unb == 1 {
				v := unit
				if v < 0 {
					v = -v
				}
				if unit > 0 {
					d.val[v] = 1
				} else {
					d.val[v] = -1
				}
				*trail = append(*trail, v)
				changed = true
			}
		}
	}
	return true
}

func (d *dpll) solve() (sat bool, ok bool) {
	if d.budget < 0 {
		return false, false
	}
	var trail []int
	undo := func() {
		for _, v := range trail {
			d.val[v] = 0
		}
	}
	if !d.propagate(&trail) {
		undo()
		return false, true
	}
	// choose an unbound variable appearing in an unsatisfied clause
	pick := 0
	for _, c := range d.cnf {
		sat := false
		cand := 0
		for _, l := range c {
			switch d.litVal(l) {
			case 1:
				sat = true
			case 0:
				if cand == 0 {
					cand = l
				}
			}
		}
		if !sat && cand != 0 {
			pick = cand
			break
		}
	}
	if pick == 0 {
		// every clause satisfied: complete arbitrarily (leave unbound = false)
		return true, true
	}
	v := pick
	if v < 0 {
		v = -v
	}
	for _, try := range []int8{1, -1} {
		if pick < 0 {
			try = -try
		}
		d.val[v] = try
		s, ok := d.solve()
		if !ok {
			d.val[v] = 0
			undo()
			return false, false
		}
		if s {
			return true, true
		}
		d.val[v] = 0
	}
	undo()
	return false, true
}

// DPLL decides satisfiability of cnf over n variables with assumptions; ok is false when the
// work budget was exhausted (inconclusive). On sat, model has n entries.
func DPLL(cnf [][]int, n int, assume []int, budget int64) (sat bool, model []bool, ok bool) {
	d := &dpll{cnf: cnf, val: make([]int8, n+1), budget: budget}
	for _, c := range cnf {
		if len(c) == 0 {
			return false, nil, true
		}
	}
	for _, l := range assume {
		v := l
		want := int8(1)
		if l < 0 {
			v, want = -l, -1
		}
		if d.val[v] == -want {
			return false, nil, true
		}
		d.val[v] = want
	}
	s, ok := d.solve()
	if !ok {
		return false, nil, false
	}
	if !s {
		return false, nil, true
	}
	model = make([]bool, n)
	for v := 1; v <= n; v++ {
		model[v-1] = d.val[v] == 1
	}
	return true, model, true
}

// RUP is an incremental reverse-unit-propagation checker.
type RUP struct {
	n       int
	clauses [][]int
	val     []int8
}

// NewRUP makes a checker over n variables holding the given clauses.
func NewRUP(cnf [][]int, n int) *RUP {
	r := &RUP{n: n, val: make([]int8, n+1)}
	for _, c := range cnf {
		r.Add(c)
	}
	return r
}

func (r *RUP) grow(c []int) {
	for _, l := range c {
		if l < 0 {
			l = -l
		}
		for l > r.n {
			r.n++
			r.val = append(r.val, 0)
		}
	}
}

// Add adds a clause without checking it.
func (r *RUP) Add(c []int) {
	r.grow(c)
	r.clauses = append(r.clauses, append([]int{}, c...))
}

// Check tells whether clause c follows from the held clauses by unit propagation alone.
func (r *RUP) Check(c []int) bool {
	r.grow(c)
	for i := range r.val {
		r.val[i] = 0
	}
	for _, l := range c {
		if l > 0 {
			if r.val[l] == 1 {
				return true // c is a tautology
			}
			r.val[l] = -1
		} else {
			if r.val[-l] == -1 {
				return true
			}
			r.val[-l] = 1
		}
	}
	changed := true
	for changed {
		changed = false
		for _, cl := range r.clauses {
			unb, unit, sat := 0, 0, false
			for _, l := range cl {
				var v int8
				if l > 0 {
					v = r.val[l]
				} else {
					v = -r.val[-l]
				}
				if v == 1 {
					sat = true
					break
				}
				if v == 0 && (unb == 0 || unit != l) {
					unb++
					unit = l
				}
			}
			if sat {
				continue
			}
			if unb == 0 {
				return true
			}
			if unb == 1 {
				if unit > 0 {
					r.val[unit] = 1
				} else {
					r.val[-unit] = -1
				}
				changed = true
			}
		}
	}
	return false
}

// counter is a counting DPLL: occurrence lists, per-clause true/false counters, trail-based undo.
type counter struct {
	cls           [][]int
	occ           [][]int // index 2*v for v, 2*v+1 for -v
	nTrue, nFalse []int
	val           []int8
	trail         []int
	nSat          int
	n             int
	budget        int64
	count, maxCnt uint64
	overflow      bool
}

func occIdx(l int) int {
	if l > 0 {
		return 2 * l
	}
	return -2*l + 1
}

// assign binds literal l and propagates; returns false on conflict. Everything bound is on the trail.
func (c *counter) assign(l int) bool {
	queue := []int{l}
	for len(queue) > 0 {
		l = queue[0]
		queue = queue[1:]
		v := l
		if v < 0 {
			v = -v
		}
		want := int8(1)
		if l < 0 {
			want = -1
		}
		if c.val[v] == want {
			continue
		}
		if c.val[v] == -want {
			return false
		}
		c.val[v] = want
		c.trail = append(c.trail, l)
		c.budget--
		for _, ci := range c.occ[occIdx(l)] {
			c.nTrue[ci]++
			if c.nTrue[ci] == 1 {
				c.nSat++
			}
		}
		conflict := false
		for _, ci := range c.occ[occIdx(-l)] {
			c.nFalse[ci]++
			if c.nTrue[ci] > 0 {
				continue
			}
			switch len(c.cls[ci]) - c.nFalse[ci] {
			case 0:
				conflict = true
			case 1:
				for _, l2 := range c.cls[ci] {
					v2 := l2
					if v2 < 0 {
						v2 = -v2
					}
					if c.val[v2] == 0 {
						queue = append(queue, l2)
						break
					}
				}
			}
		}
		if conflict {
			return false
		}
	}
	return true
}

func (c *counter) undoTo(sz int) {
	for len(c.trail) > sz {
		l := c.trail[len(c.trail)-1]
		c.trail = c.trail[:len(c.trail)-1]
		v := l
		if v < 0 {
			v = -v
		}
		c.val[v] = 0
		for _, ci := range c.occ[occIdx(l)] {
			c.nTrue[ci]--
			if c.nTrue[ci] == 0 {
				c.nSat--
			}
		}
		for _, ci := range c.occ[occIdx(-l)] {
			c.nFalse[ci]--
		}
	}
}

func (c *counter) rec() bool {
	if c.budget < 0 || c.overflow {
		return false
	}
	if c.nSat == len(c.cls) {
		free := c.n - len(c.trail)
		if free >= 40 {
			c.overflow = true
			return false
		}
		c.count += 1 << uint(free)
		if c.count > c.maxCnt {
			c.overflow = true
			return false
		}
		return true
	}
	// branch on a literal of a shortest unsatisfied clause
	pick, best := 0, -1
	for ci := range c.cls {
		if c.nTrue[ci] > 0 {
			continue
		}
		if open := len(c.cls[ci]) - c.nFalse[ci]; best < 0 || open < len(c.cls[best])-c.nFalse[best] {
			best = ci
			if open <= 2 {
				break
			}
		}
	}
	if best >= 0 {
		for _, l := range c.cls[best] {
			v := l
			if v < 0 {
				v = -v
			}
			if c.val[v] == 0 {
				pick = l
				break
			}
		}
	}
	if pick == 0 {
		panic("ref: counting DPLL found an unsatisfied clause without unbound literal")
	}
	for _, l := range []int{pick, -pick} {
		sz := len(c.trail)
		if c.assign(l) {
			if !c.rec() {
				c.undoTo(sz)
				return false
			}
		}
		c.undoTo(sz)
	}
	return true
}

// CountCNF counts the models of cnf over n variables. ok is false when the work budget is exhausted or
// the number of models exceeds maxCount (the caller then has no reference).
func CountCNF(cnf [][]int, n int, budget int64, maxCount uint64) (count uint64, ok bool) {
	c := &counter{n: n, val: make([]int8, n+1), occ: make([][]int, 2*n+2), budget: budget, maxCnt: maxCount}
	var units []int
	for _, cl := range cnf {
		seen := map[int]bool{}
		var d []int
		taut := false
		for _, l := range cl {
			if seen[-l] {
				taut = true
			}
			if !seen[l] {
				seen[l] = true
				d = append(d, l)
			}
		}
		if taut {
			continue
		}
		if len(d) == 0 {
			return 0, true
		}
		ci := len(c.cls)
		c.cls = append(c.cls, d)
		for _, l := range d {
			c.occ[occIdx(l)] = append(c.occ[occIdx(l)], ci)
		}
		if len(d) == 1 {
			units = append(units, d[0])
		}
	}
	c.nTrue = make([]int, len(c.cls))
	c.nFalse = make([]int, len(c.cls))
	for _, u := range units {
		if !c.assign(u) {
			return 0, true
		}
	}
	if !c.rec() {
		return 0, false
	}
	return c.count, true
}
