package ref

import (
	"fmt"
	"sort"
	"strings"
)

// F is a boolean formula tree with the standard semantics of each connective.
// Ops: var, true, false, not, and, or, imp, eq, xor, uniq (exactly one of Names), seq (the ';' conjunction of the text syntax).
type F struct {
	Op    string   `json:"op"`
	Name  string   `json:"name,omitempty"`
	Kids  []*F     `json:"kids,omitempty"`
	Names []string `json:"names,omitempty"`
}

// Eval evaluates f; variables missing from m are false.
func (f *F) Eval(m map[string]bool) bool {
	switch f.Op {
	case "var":
		return m[f.Name]
	case "true":
		return true
	case "false":
		return false
	case "not":
		return !f.Kids[0].Eval(m)
	case "and", "seq":
		for _, k := range f.Kids {
			if !k.Eval(m) {
				return false
			}
		}
		return true
	case "or":
		for _, k := range f.Kids {
			if k.Eval(m) {
				return true
			}
		}
		return false
	case "imp":
		return !f.Kids[0].Eval(m) || f.Kids[1].Eval(m)
	case "eq":
		return f.Kids[0].Eval(m) == f.Kids[1].Eval(m)
	case "xor":
		return f.Kids[0].Eval(m) != f.Kids[1].Eval(m)
	case "uniq":
		cnt := 0
		for _, n := range f.Names {
			if m[n] {
				cnt++
			}
		}
		return cnt == 1
	}
	panic("ref: unknown op " + f.Op)
}

// Vars returns the sorted distinct variable names of f.
func (f *F) Vars() []string {
	set := map[string]bool{}
	f.collect(set)
	var res []string
	for n := range set {
		res = append(res, n)
	}
	sort.Strings(res)
	return res
}

func (f *F) collect(set map[string]bool) {
	if f.Op == "var" {
		set[f.Name] = true
	}
	for _, n := range f.Names {
		set[n] = true
	}
	for _, k := range f.Kids {
		k.collect(set)
	}
}

// Size returns the number of nodes.
func (f *F) Size() int {
	s := 1
	for _, k := range f.Kids {
		s += k.Size()
	}
	return s
}

func (f *F) String() string {
	switch f.Op {
	case "var":
		return f.Name
	case "true", "false":
		return f.Op
	case "uniq":
		return "uniq{" + strings.Join(f.Names, ",") + "}"
	}
	parts := make([]string, len(f.Kids))
	for i, k := range f.Kids {
		parts[i] = k.String()
	}
	return f.Op + "(" + strings.Join(parts, ",") + ")"
}

// AssignOf builds the assignment of vars from the bits of a.
func AssignOf(vars []string, a uint32) map[string]bool {
	m := make(map[string]bool, len(vars))
	for i, v := range vars {
		m[v] = a>>uint(i)&1 == 1
	}
	return m
}

// HasModel tells whether some assignment of f's variables satisfies it.
func (f *F) HasModel() bool {
	vars := f.Vars()
	if len(vars) > MaxTT {
		panic("ref: too many variables")
	}
	for a := uint32(0); a < 1<<uint(len(vars)); a++ {
		if f.Eval(AssignOf(vars, a)) {
			return true
		}
	}
	return false
}

// ---- reference reader of the documented text syntax ----

// Tokenize splits a formula text into tokens: identifiers, ^ & | -> = ; ( ) { } and commas.
func Tokenize(s string) ([]string, error) {
	var toks []string
	i := 0
	for i < len(s) {
		c := s[i]
		switch {
		case c == ' ' || c == '\t' || c == '\n' || c == '\r':
			i++
		case c == '-':
			if i+1 < len(s) && s[i+1] == '>' {
				toks = append(toks, "->")
				i += 2
			} else {
				return nil, fmt.Errorf("stray '-'")
			}
		case strings.ContainsRune("^&|=;(){},", rune(c)):
			toks = append(toks, string(c))
			i++
		case c == '_' || (c >= 'a' && c <= 'z') || (c >= 'A' && c <= 'Z'):
			j := i
			for j < len(s) && (s[j] == '_' || (s[j] >= 'a' && s[j] <= 'z') || (s[j] >= 'A' && s[j] <= 'Z') || (s[j] >= '0' && s[j] <= '9')) {
				j++
			}
			toks = append(toks, s[i:j])
			i = j
		default:
			return nil, fmt.Errorf("unexpected character %q", c)
		}
	}
	return toks, nil
}

type fparser struct {
	toks []string
	pos  int
}

func (p *fparser) peek() string {
	if p.pos < len(p.toks) {
		return p.toks[p.pos]
	}
	return ""
}

func isIdent(t string) bool {
	return t != "" && (t[0] == '_' || (t[0] >= 'a' && t[0] <= 'z') || (t[0] >= 'A' && t[0] <= 'Z'))
}

// ParseTokens reads tokens with the documented priorities (; lowest, then =, ->, |, &, ^ tightest),
// right-nesting repeated operators. It returns an error for anything the documented grammar does not derive.
func ParseTokens(toks []string) (*F, error) {
	p := &fparser{toks: toks}
	f, err := p.level(0)
	if err != nil {
		return nil, err
	}
	if p.pos != len(toks) {
		return nil, fmt.Errorf("trailing token %q", p.peek())
	}
	return f, nil
}

var levelOps = []string{";", "=", "->", "|", "&"}
var levelNames = []string{"seq", "eq", "imp", "or", "and"}

func (p *fparser) level(l int) (*F, error) {
	if l == len(levelOps) {
		return p.not()
	}
	left, err := p.level(l + 1)
	if err != nil {
		return nil, err
	}
	if p.peek() == levelOps[l] {
		p.pos++
		right, err := p.level(l) // right nesting
		if err != nil {
			return nil, err
		}
		return &F{Op: levelNames[l], Kids: []*F{left, right}}, nil
	}
	return left, nil
}

func (p *fparser) not() (*F, error) {
	if p.peek() == "^" {
		p.pos++
		k, err := p.not()
		if err != nil {
			return nil, err
		}
		return &F{Op: "not", Kids: []*F{k}}, nil
	}
	return p.atom()
}

func (p *fparser) atom() (*F, error) {
	t := p.peek()
	switch {
	case t == "(":
		p.pos++
		f, err := p.level(0)
		if err != nil {
			return nil, err
		}
		if p.peek() != ")" {
			return nil, fmt.Errorf("expected ')', found %q", p.peek())
		}
		p.pos++
		return f, nil
	case t == "{":
		p.pos++
		var names []string
		for {
			if !isIdent(p.peek()) {
				return nil, fmt.Errorf("expected identifier in group, found %q", p.peek())
			}
			names = append(names, p.peek())
			p.pos++
			if p.peek() == "}" {
				p.pos++
				return &F{Op: "uniq", Names: names}, nil
			}
			if p.peek() != "," {
				return nil, fmt.Errorf("expected ',' or '}', found %q", p.peek())
			}
			p.pos++
		}
	case isIdent(t):
		p.pos++
		return &F{Op: "var", Name: t}, nil
	}
	return nil, fmt.Errorf("expected operand, found %q", t)
}
