package ref_test

import (
	"testing"

	"verif/internal/gen"
	"verif/internal/ref"
)

// CountCNF must agree with the truth table on small formulas (self-test of the oracle).
func TestCountCNFAgainstTruthTable(t *testing.T) {
	r := gen.New(12345)
	for i := 0; i < 20000; i++ {
		cnf, n := gen.RandomCNF(r, gen.CNFOpts{MinVars: 1, MaxVars: 12, MaxLen: 5, Weird: true})
		for _, c := range cnf {
			for _, l := range c {
				if l > n {
					n = l
				} else if -l > n {
					n = -l
				}
			}
		}
		want := ref.CNFToProblem(cnf, n).Count(n)
		got, ok := ref.CountCNF(cnf, n, 1<<40, 1<<40)
		if !ok || got != uint64(want) {
			t.Fatalf("cnf %v n=%d: CountCNF=%d ok=%v, truth table %d", cnf, n, got, ok, want)
		}
	}
}
