package ref

import (
	"fmt"
	"strconv"
	"strings"
)

// DimacsFile is what the harness's own reader extracts from a DIMACS CNF text.
type DimacsFile struct {
	NbVars, NbClauses int
	Clauses           [][]int
	Names             map[string]int // from comment lines "c name=idx"
}

// ReadDimacs reads a DIMACS CNF text strictly: one header, comment lines starting with 'c',
// clauses as integer sequences terminated by 0 (possibly spread over lines).
func ReadDimacs(text string) (*DimacsFile, error) {
	d := &DimacsFile{Names: map[string]int{}}
	header := false
	var cur []int
	for ln, line := range strings.Split(text, "\n") {
		t := strings.TrimSpace(line)
		if t == "" {
			continue
		}
		if t[0] == 'c' {
			rest := strings.TrimSpace(t[1:])
			if i := strings.LastIndex(rest, "="); i > 0 {
				idx, err := strconv.Atoi(rest[i+1:])
				if err == nil {
					name := rest[:i]
					if _, dup := d.Names[name]; dup {
						return nil, fmt.Errorf("line %d: name %q mapped twice", ln+1, name)
					}
					d.Names[name] = idx
				}
			}
			continue
		}
		if t[0] == 'p' {
			if header {
				return nil, fmt.Errorf("line %d: second header", ln+1)
			}
			f := strings.Fields(t)
			if len(f) != 4 || f[1] != "cnf" {
				return nil, fmt.Errorf("line %d: bad header %q", ln+1, t)
			}
			var err error
			if d.NbVars, err = strconv.Atoi(f[2]); err != nil {
				return nil, fmt.Errorf("line %d: bad header %q", ln+1, t)
			}
			if d.NbClauses, err = strconv.Atoi(f[3]); err != nil {
				return nil, fmt.Errorf("line %d: bad header %q", ln+1, t)
			}
			header = true
			continue
		}
		if !header {
			return nil, fmt.Errorf("line %d: clause before header", ln+1)
		}
		for _, tok := range strings.Fields(t) {
			v, err := strconv.Atoi(tok)
			if err != nil {
				return nil, fmt.Errorf("line %d: bad token %q", ln+1, tok)
			}
			if v == 0 {
				d.Clauses = append(d.Clauses, cur)
				cur = nil
				continue
			}
			if v > d.NbVars || -v > d.NbVars {
				return nil, fmt.Errorf("line %d: literal %d out of range 1..%d", ln+1, v, d.NbVars)
			}
			cur = append(cur, v)
		}
	}
	if !header {
		return nil, fmt.Errorf("no header")
	}
	if cur != nil {
		return nil, fmt.Errorf("last clause is not terminated by 0")
	}
	if len(d.Clauses) != d.NbClauses {
		return nil, fmt.Errorf("header announces %d clauses, body has %d", d.NbClauses, len(d.Clauses))
	}
	return d, nil
}
