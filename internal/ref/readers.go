package ref

import (
	"fmt"
	"strconv"
	"strings"
)

// DimacsFile is what the harness's own reader extracts from a DIMACS CNF text.
type DimacsFile struct {
	NbVars, NbClauses int
	Clauses           [][]int
	Names             map[string]int // from comment lines "c name=idx"
}

// ReadDimacs reads a DIMACS CNF text strictly: one header, comment lines starting with 'c',
// clauses as integer sequences terminated by 0 (possibly spread over lines).
func ReadDimacs(text string) (*DimacsFile, error) {
	d := &DimacsFile{Names: map[string]int{}}
	header := false
	var cur []int
	for ln, line := range strings.Split(text, "\n") {
		t := strings.TrimSpace(line)
		if t == "" {
			continue
		}
		if t[0] == 'c' {
			rest := strings.TrimSpace(t[1:])
			if i := strings.LastIndex(rest, "="); i > 0 {
				idx, err := strconv.Atoi(rest[i+1:])
				if err == nil {
					name := rest[:i]
					if _, dup := d.Names[name]; dup {
						return nil, fmt.Errorf("line %d: name %q mapped twice", ln+1, name)
					}
					d.Names[name] = idx
				}
			}
			continue
		}
		if t[0] == 'p' {
			if header {
				return nil, fmt.Errorf("line %d: second header", ln+1)
			}
			f := strings.Fields(t)
			if len(f) != 4 || f[1] != "cnf" {
				return nil, fmt.Errorf("line %d: bad header %q", ln+1, t)
			}
			var err error
			if d.NbVars, err = strconv.Atoi(f[2]); err != nil {
				return nil, fmt.Errorf("line %d: bad header %q", ln+1, t)
			}
			if d.NbClauses, err = strconv.Atoi(f[3]); err != nil {
				return nil, fmt.Errorf("line %d: bad header %q", ln+1, t)
			}
			header = true
			continue
		}
		if !header {
			return nil, fmt.Errorf("line %d: clause before header", ln+1)
		}
		for _, tok := range strings.Fields(t) {
			v, err := strconv.Atoi(tok)
			if err != nil {
				return nil, fmt.Errorf("line %d: bad token %q", ln+1, tok)
			}
			if v == 0 {
				d.Clauses = append(d.Clauses, cur)
				cur = nil
				continue
			}
			if v > d.NbVars || -v > d.NbVars {
				return nil, fmt.Errorf("line %d: literal %d out of range 1..%d", ln+1, v, d.NbVars)
			}
			cur = append(cur, v)
		}
	}
	if !header {
		return nil, fmt.Errorf("no header")
	}
	if cur != nil {
		return nil, fmt.Errorf("last clause is not terminated by 0")
	}
	if len(d.Clauses) != d.NbClauses {
		return nil, fmt.Errorf("header announces %d clauses, body has %d", d.NbClauses, len(d.Clauses))
	}
	return d, nil
}

// ReadOPB reads an OPB text strictly: comment lines start with '*', an optional objective "min: terms ;",
// constraints "terms (>=|=) integer ;", a term being "integer [~]xN". It returns the problem over the
// highest variable mentioned.
func ReadOPB(text string) (*Problem, error) {
	p := &Problem{}
	for ln, line := range strings.Split(text, "\n") {
		t := strings.TrimSpace(line)
		if t == "" || t[0] == '*' {
			continue
		}
		if !strings.HasSuffix(t, ";") {
			return nil, fmt.Errorf("line %d: %q does not end with ';'", ln+1, t)
		}
		f := strings.Fields(strings.TrimSuffix(t, ";"))
		if len(f) == 0 {
			return nil, fmt.Errorf("line %d: empty statement", ln+1)
		}
		terms := func(f []string) (lits, coefs []int, err error) {
			if len(f)%2 != 0 {
				return nil, nil, fmt.Errorf("line %d: terms %v are not (coefficient, variable) pairs", ln+1, f)
			}
			for i := 0; i < len(f); i += 2 {
				w, err := strconv.Atoi(f[i])
				if err != nil {
					return nil, nil, fmt.Errorf("line %d: bad coefficient %q", ln+1, f[i])
				}
				name := f[i+1]
				neg := false
				if strings.HasPrefix(name, "~") {
					neg, name = true, name[1:]
				}
				if !strings.HasPrefix(name, "x") {
					return nil, nil, fmt.Errorf("line %d: bad variable %q", ln+1, f[i+1])
				}
				v, err := strconv.Atoi(name[1:])
				if err != nil || v < 1 {
					return nil, nil, fmt.Errorf("line %d: bad variable %q", ln+1, f[i+1])
				}
				if v > p.N {
					p.N = v
				}
				if neg {
					v = -v
				}
				lits, coefs = append(lits, v), append(coefs, w)
			}
			return lits, coefs, nil
		}
		if f[0] == "min:" {
			if p.HasCost {
				return nil, fmt.Errorf("line %d: second objective", ln+1)
			}
			lits, coefs, err := terms(f[1:])
			if err != nil {
				return nil, err
			}
			p.HasCost, p.CostLits, p.CostW = true, lits, coefs
			if p.CostW == nil {
				p.CostLits, p.CostW = []int{}, []int{}
			}
			continue
		}
		if len(f) < 2 {
			return nil, fmt.Errorf("line %d: bad constraint %q", ln+1, t)
		}
		rel := f[len(f)-2]
		rhs, err := strconv.Atoi(f[len(f)-1])
		if err != nil {
			return nil, fmt.Errorf("line %d: bad right-hand side %q", ln+1, f[len(f)-1])
		}
		lits, coefs, err := terms(f[:len(f)-2])
		if err != nil {
			return nil, err
		}
		if len(lits) == 0 {
			return nil, fmt.Errorf("line %d: constraint without any term", ln+1)
		}
		c := Lin{Lits: lits, Coefs: coefs, Rhs: rhs}
		if c.Coefs == nil {
			c.Coefs = []int{}
		}
		switch rel {
		case ">=":
			c.Rel = GE
		case "=":
			c.Rel = EQ
		default:
			return nil, fmt.Errorf("line %d: bad relation %q", ln+1, rel)
		}
		p.Cons = append(p.Cons, c)
	}
	return p, nil
}
