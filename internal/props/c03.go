package props

import (
	"fmt"
	"strings"

	"github.com/crillab/gophersat/solver"

	"verif/internal/gen"
	"verif/internal/ref"
)

// C03 — the reported optimum is the true minimum of the cost function.

// C03Case is a constraint set with a cost function and the way it reaches gophersat.
type C03Case struct {
	P     *ref.Problem `json:"p"`
	Front string       `json:"front"`       // cnf | card | pb | opb
	M     *gen.MaxSat  `json:"m,omitempty"` // when set, P is the relaxed form of M (one relaxation variable per soft clause) and M gives the reference optimum
	CP    bool         `json:"cp,omitempty"`
}

var c03Counts = map[string]int{"quick": 40_000, "thorough": 1_000_000}

// genOptProblem draws a (constraints, cost) pair. neg allows negative cost weights (OPB text only).
func genOptProblem(r *gen.Rng, front string, neg bool) *ref.Problem {
	var p *ref.Problem
	switch front {
	case "cnf":
		cnf, n := gen.RandomCNF(r, gen.CNFOpts{MinVars: 2, MaxVars: 10, MaxLen: 4, Weird: r.Chance(1, 3)})
		if r.Chance(1, 2) { // under-constrained so that many models compete
			cnf = cnf[:len(cnf)/3]
		}
		if mv := MaxVarCNF(cnf); mv > n {
			n = mv
		}
		p = ref.CNFToProblem(cnf, n)
	case "card":
		p = gen.RandomPBProblem(r, gen.PBOpts{MinVars: 2, MaxVars: 10, CardOnly: true, MaxCons: 6, Hard: r.Chance(1, 4)})
	case "pb":
		p = gen.RandomPBProblem(r, gen.PBOpts{MinVars: 2, MaxVars: 10, MaxW: r.Range(1, 5), NegCoefs: true, MaxCons: 6, Hard: r.Chance(1, 4)})
	case "opb":
		p = gen.RandomPBProblem(r, gen.PBOpts{MinVars: 2, MaxVars: 10, MaxW: r.Range(1, 5), NegCoefs: true, MaxCons: 6, NoLE: false, Hard: r.Chance(1, 4)})
	}
	if (front == "pb" || front == "opb") && !neg && r.Chance(1, 3) {
		// optimisation that needs several improvement steps: full-length objective, or relaxed soft clauses
		if r.Bool() {
			return gen.RandomObjectiveProblem(r, 5, 11)
		}
		return gen.RandomSoftClauseProblem(r, r.Range(3, 5), r.Range(4, 9))
	}
	n := p.MaxVar()
	if n < 1 {
		n = 1
	}
	if front == "cnf" || front == "opb" {
		n = max(n, p.N)
	}
	p.N = n
	if r.Chance(1, 12) {
		return p // no cost function
	}
	p.HasCost = true
	p.CostLits, p.CostW = gen.RandomCost(r, n, r.Range(1, 6), neg, r.Chance(1, 5))
	if r.Chance(1, 4) { // cost literals forced by unit constraints: the strengthening constraint meets top-level facts
		for k := r.Range(1, 2); k > 0; k-- {
			l := p.CostLits[r.Intn(len(p.CostLits))]
			if r.Bool() {
				l = -l
			}
			p.Cons = append(p.Cons, ref.Cl(l))
		}
	}
	return p
}

func c03Gen(r *gen.Rng, tier string, idx int) interface{} {
	c := &C03Case{Front: []string{"cnf", "card", "pb", "pb", "opb", "opb"}[r.Intn(6)]}
	if r.Chance(1, 4) { // relaxed MaxSAT instance with many soft clauses: a long sequence of improvement steps
		c.Front = []string{"pb", "opb"}[r.Intn(2)]
		nv := r.Range(5, 8)
		m := &gen.MaxSat{N: nv}
		for k := r.Intn(4); k > 0; k-- {
			m.Hard = append(m.Hard, ref.Cl(r.DistinctLits(nv, r.Range(2, 3))...))
		}
		for k := r.Range(10, 22); k > 0; k-- {
			m.Soft = append(m.Soft, ref.Cl(r.DistinctLits(nv, r.Range(1, 3))...))
			m.W = append(m.W, r.Range(1, 5))
		}
		c.M = m
		p := &ref.Problem{N: nv + len(m.Soft), HasCost: true}
		for _, h := range m.Hard {
			p.Cons = append(p.Cons, h.Clone())
		}
		for i, sc := range m.Soft {
			relax := nv + i + 1
			p.Cons = append(p.Cons, ref.Cl(append(append([]int{}, sc.Lits...), relax)...))
			p.CostLits = append(p.CostLits, relax)
			p.CostW = append(p.CostW, m.W[i])
		}
		c.P = p
		return c
	}
	c.P = genOptProblem(r, c.Front, c.Front == "opb" && r.Chance(1, 3))
	return c
}

// buildOptProblem builds a fresh gophersat problem for c (nil if the front-end failed).
func buildOptProblem(p *ref.Problem, front string, rec *Rec, scen string) (pb *solver.Problem) {
	rec.Guard(scen+"/parse", func() {
		switch front {
		case "cnf":
			var cnf [][]int
			for _, c := range p.Cons {
				cnf = append(cnf, append([]int{}, c.Lits...))
			}
			pb = solver.ParseSliceNb(cnf, p.N)
		case "card", "pb":
			pb = buildPBProblem(p, front)
		case "opb":
			var err error
			pb, err = solver.ParseOPB(strings.NewReader(RenderOPB(p)))
			if err != nil {
				rec.Viol(scen+"/parse", "parse-error", "ParseOPB", "ParseOPB failed on a well-formed text: %v\n%s", err, RenderOPB(p))
				pb = nil
			}
			return
		}
		if p.HasCost && pb != nil {
			pb.SetCostFunc(ToLits(p.CostLits), CopyInts(p.CostW))
		}
	})
	return pb
}

func c03Run(ci interface{}, rec *Rec) {
	c := ci.(*C03Case)
	p := c.P
	n := p.N
	if mv := p.MaxVar(); mv > n {
		n = mv
	}
	var min int
	var sat bool
	if c.M != nil {
		min, sat = c.M.Optimum(c.M.N) // the relaxation variables are determined by the user variables at the optimum
	} else {
		min, sat = p.MinCost(n)
	}
	neg := false
	for _, w := range p.CostW {
		if w < 0 {
			neg = true
		}
	}
	scenBase := map[string]string{"cnf": "ParseSliceNb", "card": "ParseCardConstrs", "pb": "ParsePBConstrs", "opb": "ParseOPB"}[c.Front]
	if neg {
		scenBase += "/negcost"
	}
	SetLearnedLimit(0, false)
	// cost variables must exist in the problem: the API front-ends derive NbVars from the constraints
	check := func(scen string, st solver.Status, cost int, model []bool) {
		if st == solver.Unsat {
			if sat {
				rec.Viol(scen, "wrong-verdict", "Unsat-for-sat", "answered Unsat but a model exists (optimum %d)", min)
			}
			return
		}
		if st != solver.Sat {
			rec.Viol(scen, "wrong-verdict", "Indet", "answered %s", StatusName(st))
			return
		}
		if !sat {
			rec.Viol(scen, "wrong-verdict", "Sat-for-unsat", "answered Sat (cost %d) but no model exists", cost)
			return
		}
		if bad, a := checkModelAllCompletions(p, model, n); bad >= 0 {
			rec.Viol(scen, "bad-model", "Model", "model %s violates constraint #%d: %s", ref.AssignString(a, n), bad, p.Cons[bad])
			return
		}
		real := p.Cost(ref.BoolsToAssign(model))
		if real != cost {
			rec.Viol(scen, "cost-mismatch", "Weight", "reported cost %d but the cost function evaluates to %d on the returned model %v", cost, real, model)
		}
		if cost != min {
			rec.Viol(scen, "not-optimal", "Weight", "reported cost %d, true minimum is %d", cost, min)
		}
	}
	var costOpt, costMin int
	okOpt, okMin := false, false
	// entry point 1: Optimal(nil, nil)
	scen := scenBase + "+Optimal"
	if pb := buildOptProblem(p, c.Front, rec, scen); pb != nil {
		if p.HasCost && c.Front != "opb" && pb.NbVars < p.MaxVar() && pb.Status != solver.Unsat {
			return // cost mentions a variable the front-end did not register: outside the API contract
		}
		var res solver.Result
		var s *solver.Solver
		if !rec.Guard(scen, func() {
			s = solver.New(pb)
			res = s.Optimal(nil, nil)
		}) {
			check(scen, res.Status, res.Weight, res.Model)
			costOpt, okOpt = res.Weight, res.Status == solver.Sat
			if res.Status == solver.Unsat {
				costOpt, okOpt = -1, true
			}
			rec.Count("optimal_calls", 1)
			rec.Count("conflicts", s.Stats.NbConflicts)
		}
	}
	// entry point 2: Minimize()
	scen = scenBase + "+Minimize"
	if pb := buildOptProblem(p, c.Front, rec, scen); pb != nil {
		var cost int
		var s *solver.Solver
		var model []bool
		if !rec.Guard(scen, func() {
			s = solver.New(pb)
			cost = s.Minimize()
			if cost != -1 {
				model = s.Model()
			}
		}) {
			if cost == -1 {
				if neg && sat && min == -1 {
					rec.Count("ambiguous_minus_one", 1) // true optimum -1 and the Unsat marker coincide: not asserted
				} else {
					check(scen, solver.Unsat, 0, nil)
				}
			} else {
				check(scen, solver.Sat, cost, model)
			}
			costMin, okMin = cost, true
			rec.Count("minimize_calls", 1)
		}
	}
	if okOpt && okMin && costOpt != costMin {
		rec.Viol(scenBase+"+Optimal/Minimize", "cost-mismatch", "disagree", "Optimal reports %d, Minimize reports %d", costOpt, costMin)
	}
	if sat && p.HasCost {
		rec.Count("sat_with_cost", 1)
		if min > 0 {
			rec.Count("optimum_positive", 1)
		}
		// non-trivial: at least two distinct cost values among the models, so the search has to improve or prove
		if c.M != nil {
			rec.Count("relaxed_maxsat_cases", 1)
			rec.Interesting(JS(c.M) + c.Front)
		} else if maxc := maxCost(p, n); maxc != min {
			rec.Interesting(JS(p) + c.Front)
		}
	}
	if !sat {
		rec.Count("unsat", 1)
	}
	if !p.HasCost {
		rec.Count("no_cost", 1)
	}
}

func maxCost(p *ref.Problem, n int) int {
	first := true
	m := 0
	for a := uint32(0); a < 1<<uint(n); a++ {
		if p.Holds(a) {
			if c := p.Cost(a); first || c > m {
				m, first = c, false
			}
		}
	}
	return m
}

func init() {
	register(&Prop{
		ID:       "C03",
		NumCases: func(tier string) int { return c03Counts[tier] },
		Gen:      c03Gen,
		New:      func() interface{} { return &C03Case{} },
		Run:      c03Run,
		Setup:    func(string) { InstallSeqHooks() },
		Rule: "random (constraint set, cost function) pairs over 2..10 variables: clauses (ParseSliceNb), cardinality (ParseCardConstrs), PB (ParsePBConstrs) with SetCostFunc, and OPB texts (ParseOPB, also with negative cost coefficients); cost literals of either polarity over distinct variables, weights 0..6 or nil (unit); 1 in 4 with cost literals forced by unit constraints; 1 in 12 without cost function. Optimal(nil,nil) and Minimize() run on separately built solvers; judged by truth-table minimum. " +
			fmt.Sprint("non-trivial = satisfiable with at least two distinct cost values among its models; distinct by (problem, front-end)"),
		Assumptions: []string{
			"reference truth-table minimum of internal/ref",
			"through the API front-ends the cost function only mentions variables the constraints mention (cases where it does not are skipped); negative cost coefficients are only given through OPB text",
			"with a negative minimum the integer entry point cannot distinguish cost -1 from its Unsat marker; that single value is not asserted",
		},
		Floors: map[string]map[string]int64{
			"quick":    {"optimum_positive": 2000, "unsat": 500},
			"thorough": {"optimum_positive": 50000, "unsat": 12000},
		},
	})
}
