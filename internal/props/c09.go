package props

import (
	"fmt"

	"github.com/crillab/gophersat/solver"

	"verif/internal/gen"
	"verif/internal/ref"
)

// C09 — adding constraints to a live solver equals solving from scratch.

// C09Case is a base problem with a history of additions and solves.
type C09Case struct {
	Base  *ref.Problem `json:"base"`
	Front string       `json:"front"` // cnf | card | pb
	Ops   []gen.Op     `json:"ops"`
	Limit int          `json:"limit"`
}

var c09Counts = map[string]int{"quick": 50_000, "thorough": 1_000_000}

func c09Gen(r *gen.Rng, tier string, idx int) interface{} {
	c := &C09Case{Front: []string{"cnf", "cnf", "card", "pb"}[r.Intn(4)], Limit: []int{0, 0, 3}[r.Intn(3)]}
	c.Base, c.Ops = gen.RandomHistory(r, c.Front)
	return c
}

// addedClauses builds the gophersat constraints for an added reference constraint (fresh slices).
func addedClauses(op gen.Op) []*solver.Clause {
	switch op.As {
	case "clause":
		return []*solver.Clause{solver.NewClause(ToLits(op.C.Lits))}
	case "card":
		return []*solver.Clause{solver.NewCardClause(ToLits(op.C.Lits), op.C.Rhs)}
	}
	var res []*solver.Clause
	for _, pc := range PBConstrsOf(op.C) {
		if pc.AtLeast <= 0 {
			continue // trivially true: nothing to add
		}
		res = append(res, pc.Clause())
	}
	return res
}

func c09Run(ci interface{}, rec *Rec) {
	c := ci.(*C09Case)
	front := map[string]string{"cnf": "cnf", "card": "card", "pb": "pb"}[c.Front]
	scenBase := map[string]string{"cnf": "ParseSliceNb", "card": "ParseCardConstrs", "pb": "ParsePBConstrs"}[c.Front]
	scen := fmt.Sprintf("%s+history/limit=%d", scenBase, c.Limit)
	SetLearnedLimit(c.Limit, true)
	var pb *solver.Problem
	if rec.Guard(scen+"/parse", func() {
		if front == "cnf" {
			var cnf [][]int
			for _, l := range c.Base.Cons {
				cnf = append(cnf, append([]int{}, l.Lits...))
			}
			pb = solver.ParseSliceNb(cnf, c.Base.N)
		} else {
			pb = buildPBProblem(c.Base, front)
		}
	}) {
		return
	}
	var s *solver.Solver
	if rec.Guard(scen+"/New", func() { s = solver.New(pb) }) {
		return
	}
	cur := c.Base.Clone()
	n := cur.N
	wasUnsat := false
	var verdicts []string
	nbSolves, nbAdds := 0, 0
	for i, op := range c.Ops {
		if op.Kind == "add" {
			if mv := op.C.MaxVar(); mv > n {
				n = mv
			}
			cur.Cons = append(cur.Cons, op.C.Clone())
			cur.N = n
			step := fmt.Sprintf("%s/add(%s)", scen, op.As)
			if rec.Guard(step, func() {
				for _, cl := range addedClauses(op) {
					s.AppendClause(cl)
				}
			}) {
				return
			}
			nbAdds++
			rec.Count("adds_"+op.Why, 1)
			continue
		}
		expSat := cur.Sat(n)
		var st solver.Status
		step := scen + "/Solve"
		if rec.Guard(step, func() { st = s.Solve() }) {
			return
		}
		nbSolves++
		rec.Count("solves", 1)
		verdicts = append(verdicts, fmt.Sprintf("op#%d Solve=%s reference_sat=%v", i, StatusName(st), expSat))
		switch st {
		case solver.Sat:
			if wasUnsat {
				rec.Viol(step, "wrong-verdict", "Sat-after-unsat", "op #%d: Sat although an earlier state of the conjunction was already unsatisfiable", i)
			}
			if !expSat {
				rec.Viol(step, "wrong-verdict", "Sat-for-unsat", "op #%d: Solve answered Sat but base and additions have no model", i)
				return
			}
			var model []bool
			if rec.Guard(step+"/Model", func() { model = s.Model() }) {
				return
			}
			if len(model) > n {
				rec.Viol(step, "model-length", "Model", "op #%d: model has %d values, only %d variables exist so far", i, len(model), n)
			}
			if bad, a := checkModelAllCompletions(cur, model, n); bad >= 0 {
				rec.Viol(step, "bad-model", "Model", "op #%d: model %s violates constraint #%d of the conjunction: %s", i, ref.AssignString(a, n), bad, cur.Cons[bad])
				return
			}
		case solver.Unsat:
			if expSat {
				rec.Viol(step, "wrong-verdict", "Unsat-for-sat", "op #%d: Solve answered Unsat but base and additions have a model", i)
				return
			}
			rec.Count("unsat_solves", 1)
		default:
			rec.Viol(step, "wrong-verdict", "Indet", "op #%d: Solve answered %s", i, StatusName(st))
			return
		}
		if !expSat {
			wasUnsat = true
		}
	}
	rec.Count("histories", 1)
	if nbAdds >= 2 && nbSolves >= 2 {
		rec.Interesting(JS(c.Base.Cons) + JS(c.Ops))
		rec.Sample = map[string]interface{}{"history": c, "observed": verdicts}
	}
}

func init() {
	register(&Prop{
		ID:       "C09",
		NumCases: func(tier string) int { return c09Counts[tier] },
		Gen:      c09Gen,
		New:      func() interface{} { return &C09Case{} },
		Run:      c09Run,
		Setup:    func(string) { InstallSeqHooks() },
		Rule: "histories Solve? (AppendClause(c) Solve?)* with 1..8 additions over base problems of 2..8 variables (CNF via ParseSliceNb, cardinality, PB); each added constraint is built afresh by NewClause, NewCardClause or PBConstr.Clause() and crafted against the literals fixed by the current conjunction (computed by the reference): already satisfied, unit, contradictory, plain unit, repeated literal, complementary pair, brand-new variables (growth 1..3), cardinality, PB, plain clause; learned limit default or 3; every Solve is compared with the truth table of base AND all additions so far.  Cardinality additions list one literal twice in a quarter of the cases and a literal with its negation in some others (multiplicities count, a literal and its negation contribute exactly one); PB additions sometimes carry two terms on one literal. " +
			"non-trivial = >= 2 additions and >= 2 solves; distinct by (base, history)",
		Assumptions: []string{
			"reference truth table of internal/ref",
			"a model shorter than the highest variable mentioned so far is accepted iff the conjunction holds under the all-false and the all-true completion",
			"added cardinality / PB constraints mention each variable at most once; PB constraints that normalise to a degree <= 0 are trivially true and are not handed to AppendClause (NewPBClause rejects them)",
		},
		Floors: map[string]map[string]int64{
			"quick":    {"solves": 100000, "unsat_solves": 10000, "adds_new-variables": 1000, "adds_repeated-literal": 1000, "adds_card-repeated-literal": 3000},
			"thorough": {"solves": 2000000, "unsat_solves": 200000, "adds_new-variables": 20000, "adds_repeated-literal": 20000},
		},
	})
}
