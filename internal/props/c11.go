package props

import (
	"strings"

	"github.com/crillab/gophersat/bf"

	"verif/internal/gen"
	"verif/internal/ref"
)

// C11 — solving a boolean formula agrees with its truth table.

// C11Case is a formula tree.
type C11Case struct {
	F   *ref.F `json:"f"`
	Dup bool   `json:"dup,omitempty"` // a group lists a variable twice: judged by the library's own Eval
}

var c11Counts = map[string]int{"quick": 60_000, "thorough": 1_500_000}

func c11GenPlain(r *gen.Rng, tier string, idx int) interface{} {
	o := gen.FormulaOpts{MaxDepth: r.Range(1, 5), NbVars: r.Range(1, 9), Consts: r.Chance(1, 2), Xor: true, NegUniq: true, MaxGroup: 0}
	if r.Chance(1, 2) {
		o.MaxGroup = r.Range(1, 9)
	}
	if r.Chance(1, 6) {
		return &C11Case{F: gen.RandomGroupFormula(r, true)}
	}
	return &C11Case{F: gen.RandomFormula(r, o, 0, false)}
}

// hasNegUniq tells whether f contains an exactly-one group of size >= minSize in a position that is not purely positive.
func hasNegUniq(f *ref.F, neg bool, minSize int) bool {
	switch f.Op {
	case "uniq":
		return neg && len(f.Names) >= minSize
	case "not":
		return hasNegUniq(f.Kids[0], true, minSize) // below a negation both polarities may be needed once pushed down
	case "imp":
		return hasNegUniq(f.Kids[0], true, minSize) || hasNegUniq(f.Kids[1], neg, minSize)
	case "eq", "xor":
		return hasNegUniq(f.Kids[0], true, minSize) || hasNegUniq(f.Kids[1], true, minSize)
	}
	for _, k := range f.Kids {
		if hasNegUniq(k, neg, minSize) {
			return true
		}
	}
	return false
}

func c11Run(ci interface{}, rec *Rec) {
	c := ci.(*C11Case)
	vars := c.F.Vars()
	eval := treeEval(c.F, c.Dup)
	sat := hasModelBy(vars, eval)
	scen := "bf.Solve"
	if c.Dup {
		scen = "bf.Solve/group-with-repeated-variable"
		rec.Count("formulas_with_repeated_variable_in_group", 1)
	}
	if hasNegUniq(c.F, false, 5) {
		rec.Count("with_negated_big_group", 1)
	}
	SetLearnedLimit(0, false)
	var model map[string]bool
	if rec.Guard(scen, func() { model = bf.Solve(ToBF(c.F)) }) {
		return
	}
	rec.Count("solves", 1)
	if model == nil {
		rec.Count("nil_answers", 1)
		if sat {
			rec.Viol(scen, "wrong-verdict", "Unsat-for-sat", "Solve returned nil but %s has a model", c.F)
		}
	} else {
		rec.Count("model_answers", 1)
		if !sat {
			rec.Viol(scen, "wrong-verdict", "Sat-for-unsat", "Solve returned %v but %s is false under every assignment", model, c.F)
			return
		}
		// every completion on the variables the model does not mention must satisfy the tree
		var missing []string
		for _, v := range vars {
			if _, ok := model[v]; !ok {
				missing = append(missing, v)
			}
		}
		for a := uint32(0); a < 1<<uint(len(missing)); a++ {
			m := map[string]bool{}
			for k, v := range model {
				m[k] = v
			}
			for i, v := range missing {
				m[v] = a>>uint(i)&1 == 1
			}
			if !eval(m) {
				rec.Viol(scen, "bad-model", "Model", "returned %v completed with %v falsifies %s", model, ref.AssignOf(missing, a), c.F)
				break
			}
		}
		extra := 0
		for k := range model {
			if strings.HasPrefix(k, "dummy-") || strings.HasPrefix(k, "line-") || strings.HasPrefix(k, "col-") {
				extra++
			}
		}
		if extra > 0 {
			rec.Count("models_with_auxiliary_keys", 1) // noted, not asserted: the property does not forbid extra keys
		}
		if len(missing) > 0 {
			rec.Count("models_missing_eliminated_vars", 1)
		}
	}
	if c.F.Size() >= 4 && len(vars) >= 2 {
		rec.Interesting(c.F.String())
	}
}

func init() {
	register(&Prop{
		ID:       "C11",
		NumCases: func(tier string) int { return c11Counts[tier] },
		Gen:      c11Gen,
		New:      func() interface{} { return &C11Case{} },
		Run:      c11Run,
		Setup:    func(string) { InstallSeqHooks() },
		Rule: "random formula trees of depth <= 5 over 1..9 variables built with Var, True, False, Not, n-ary And / Or (0..4 operands, so empty ones occur), Implies, Eq, Xor and Unique groups of size 0..9 (pairwise encoding up to 4, grid encoding with auxiliary variables from 5) at positive and negative polarity; bf.Solve is judged by evaluating the tree under all assignments: nil iff unsatisfiable, otherwise every completion of the returned assignment satisfies the tree. " +
			"non-trivial = tree with >= 4 nodes over >= 2 variables; distinct by tree",
		Assumptions: []string{"reference formula evaluator of internal/ref (standard semantics; empty conjunction true, empty disjunction false, exactly-one of no variable false)", "exactly-one groups list distinct variables, except in 1 case out of 10 where a group lists a variable twice and the formula is judged by the library's own Eval (self-consistency), since the meaning of such a group is not documented"},
		Floors: map[string]map[string]int64{
			"quick":    {"nil_answers": 2000, "model_answers": 20000},
			"thorough": {"nil_answers": 50000, "model_answers": 500000},
		},
	})
}

func c11Gen(r *gen.Rng, tier string, idx int) interface{} {
	c := c11GenPlain(r, tier, idx).(*C11Case)
	if r.Chance(1, 8) { // variable names that look like the translation's own auxiliary names
		gen.RenameAdversarial(r, c.F)
	}
	if r.Chance(1, 10) {
		c.Dup = gen.DuplicateInGroup(r, c.F)
	}
	return c
}
