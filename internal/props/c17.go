package props

import (
	"strings"

	"github.com/crillab/gophersat/bf"

	"verif/internal/gen"
	"verif/internal/ref"
)

// C17 — the formula text syntax is parsed with the documented precedence.

// C17Case is a formula text, either a rendering of a tree or a token-level corruption of one.
type C17Case struct {
	Text    string   `json:"text"`
	Tokens  []string `json:"tokens"`
	Corrupt string   `json:"corrupt,omitempty"` // kind of corruption applied, empty for a plain rendering
	Tree    *ref.F   `json:"tree,omitempty"`    // the rendered tree (plain renderings only)
}

var c17Counts = map[string]int{"quick": 60_000, "thorough": 1_500_000}

func isBinOp(t string) bool { return t == "&" || t == "|" || t == "->" || t == "=" || t == ";" }

// exhaustive part: every sequence of 1..L tokens over {a, b, ^, &, |, ->, =, ;, (, )}
var c17Alphabet = []string{"a", "b", "^", "&", "|", "->", "=", ";", "(", ")"}
var c17ExhLen = map[string]int{"quick": 5, "thorough": 6}

func c17ExhTotal(tier string) int {
	t, p := 0, 1
	for l := 1; l <= c17ExhLen[tier]; l++ {
		p *= len(c17Alphabet)
		t += p
	}
	return t
}

func c17ExhCase(tier string, idx int) *C17Case {
	p := 1
	for l := 1; l <= c17ExhLen[tier]; l++ {
		p *= len(c17Alphabet)
		if idx < p {
			toks := make([]string, l)
			for i := 0; i < l; i++ {
				toks[i] = c17Alphabet[idx%len(c17Alphabet)]
				idx /= len(c17Alphabet)
			}
			return &C17Case{Tokens: toks, Text: strings.Join(toks, " "), Corrupt: "exhaustive"}
		}
		idx -= p
	}
	panic("bad index")
}

func c17Gen(r *gen.Rng, tier string, idx int) interface{} {
	if idx < c17ExhTotal(tier) {
		return c17ExhCase(tier, idx)
	}
	o := gen.FormulaOpts{MaxDepth: r.Range(1, 5), NbVars: r.Range(1, 6), TextOnly: true, Seq: r.Chance(1, 3), NegUniq: true, MaxGroup: 0}
	if r.Chance(1, 3) {
		o.MaxGroup = r.Range(1, 6)
	}
	tree := gen.RandomFormula(r, o, 0, false)
	if r.Chance(1, 20) { // ';' inside parentheses, as the documented grammar allows
		inner := &ref.F{Op: "seq", Kids: []*ref.F{gen.RandomFormula(r, o, 2, false), gen.RandomFormula(r, o, 2, false)}}
		tree = &ref.F{Op: []string{"and", "or", "imp", "eq"}[r.Intn(4)], Kids: []*ref.F{inner, tree}}
		if r.Bool() {
			tree = &ref.F{Op: "not", Kids: []*ref.F{inner}}
		}
	}
	toks := gen.RenderTokens(r, tree, r.Intn(3))
	c := &C17Case{Tree: tree}
	if r.Chance(1, 3) {
		c.Tree = nil
		n := len(toks)
		pickIdx := func(pred func(int) bool) int {
			var cand []int
			for i := 0; i < n; i++ {
				if pred(i) {
					cand = append(cand, i)
				}
			}
			if len(cand) == 0 {
				return -1
			}
			return cand[r.Intn(len(cand))]
		}
		inBraces := make([]bool, n)
		depth := 0
		for i, t := range toks {
			if t == "{" {
				depth++
			}
			inBraces[i] = depth > 0
			if t == "}" {
				depth--
			}
		}
		del := func(i int) { toks = append(toks[:i:i], toks[i+1:]...) }
		ins := func(i int, t string) {
			toks = append(toks[:i:i], append([]string{t}, toks[i:]...)...)
		}
		switch r.Intn(6) {
		case 0:
			c.Corrupt = "missing-operand(delete identifier)"
			if i := pickIdx(func(i int) bool {
				return !inBraces[i] && !isBinOp(toks[i]) && toks[i] != "^" && toks[i] != "(" && toks[i] != ")"
			}); i >= 0 {
				del(i)
			}
		case 1:
			c.Corrupt = "missing-operand(double operator)"
			if i := pickIdx(func(i int) bool { return isBinOp(toks[i]) }); i >= 0 {
				ins(i, toks[i])
			} else {
				toks = append(toks, "&")
			}
		case 2:
			c.Corrupt = "unbalanced(delete parenthesis)"
			if i := pickIdx(func(i int) bool { return toks[i] == "(" || toks[i] == ")" }); i >= 0 {
				del(i)
			} else {
				toks = append(toks, ")")
			}
		case 3:
			c.Corrupt = "unbalanced(insert parenthesis)"
			if r.Bool() {
				ins(r.Intn(n+1), "(")
			} else {
				toks = append(toks, ")")
			}
		case 4:
			c.Corrupt = "trailing-tokens"
			toks = append(toks, [][]string{{"x"}, {")"}, {"x", "y"}, {"(", "x", ")"}}[r.Intn(4)]...)
		default:
			c.Corrupt = "trailing-tokens(delete operator)"
			if i := pickIdx(func(i int) bool { return isBinOp(toks[i]) }); i >= 0 {
				del(i)
			} else {
				toks = append(toks, "x")
			}
		}
	}
	c.Tokens = toks
	c.Text = gen.JoinTokens(r, toks, r.Intn(3))
	return c
}

func maxGroup(f *ref.F) int {
	m := 0
	if f.Op == "uniq" {
		m = len(f.Names)
	}
	for _, k := range f.Kids {
		if g := maxGroup(k); g > m {
			m = g
		}
	}
	return m
}

func c17Run(ci interface{}, rec *Rec) {
	c := ci.(*C17Case)
	// the reference reading of the token list
	tree, refErr := ref.ParseTokens(c.Tokens)
	if c.Corrupt == "exhaustive" {
		rec.Count("exhaustive_token_sequences", 1)
	}
	if c.Corrupt == "" && refErr != nil {
		panic("harness: reference parser rejects a plain rendering: " + refErr.Error() + " :: " + c.Text)
	}
	if refErr != nil && len(c.Tokens) > 0 && c.Tokens[len(c.Tokens)-1] == ";" {
		rec.Count("skipped_trailing_semicolon", 1) // a trailing ';' is tolerated by design; the property is silent about it
		return
	}
	scen := "bf.Parse/valid"
	if c.Corrupt != "" {
		scen = "bf.Parse/corrupted"
	}
	var f bf.Formula
	var err error
	if rec.Guard(scen, func() { f, err = bf.Parse(strings.NewReader(c.Text)) }) {
		return
	}
	rec.Count("parses", 1)
	if refErr != nil {
		rec.Count("malformed_texts", 1)
		if c.Corrupt != "exhaustive" {
			rec.Count("malformed_"+strings.SplitN(c.Corrupt, "(", 2)[0], 1)
		}
		if err == nil {
			rec.Viol(scen, "parse-error-missing", c.Corrupt, "malformed text %q (%v) was accepted as %v", c.Text, refErr, f)
		} else if f != nil {
			rec.Viol(scen, "parse-error-missing", "formula-with-error", "malformed text %q gives error %q but also a formula %v", c.Text, err, f)
		}
		if len(c.Tokens) >= 3 {
			rec.Interesting("bad:" + strings.Join(c.Tokens, " "))
		}
		return
	}
	rec.Count("wellformed_texts", 1)
	if err != nil {
		site := "Parse"
		if strings.Contains(strings.Join(c.Tokens, " "), ";") {
			for i, t := range c.Tokens { // is there a ';' inside parentheses?
				_ = i
				_ = t
			}
		}
		rec.Viol(scen, "parse-error", site, "well-formed text %q rejected: %v", c.Text, err)
		return
	}
	if f == nil {
		rec.Viol(scen, "parse-error", "nil-formula", "well-formed text %q gives neither error nor formula", c.Text)
		return
	}
	vars := tree.Vars()
	for a := uint32(0); a < 1<<uint(len(vars)); a++ {
		m := ref.AssignOf(vars, a)
		var got bool
		if rec.Guard(scen+"/Eval", func() { got = f.Eval(m) }) {
			return
		}
		if got != tree.Eval(m) {
			rec.Viol(scen, "wrong-parse", "precedence", "text %q read as %v, which differs from the documented reading %s under %v", c.Text, f, tree, m)
			return
		}
	}
	rec.Count("assignments_compared", 1<<uint(len(vars)))
	if len(c.Tokens) >= 5 {
		rec.Interesting(strings.Join(c.Tokens, " "))
	}
}

func init() {
	register(&Prop{
		ID:       "C17",
		NumCases: func(tier string) int { return c17ExhTotal(tier) + c17Counts[tier] },
		Gen:      c17Gen,
		New:      func() interface{} { return &C17Case{} },
		Run:      c17Run,
		Setup:    func(string) { InstallSeqHooks() },
		Rule: "exhaustive: every sequence of 1..5 (thorough: 1..6) tokens over {a, b, ^, &, |, ->, =, ;, (, )}, each classified and read by the harness's own reader of the documented grammar; random: syntax trees (depth <= 5, 1..6 variables, operators ^ & | -> = ; and exactly-one groups of 1..6 variables, ';' also inside parentheses) rendered with minimal parentheses by the documented priorities and right nesting, with some redundant parentheses, or fully parenthesised, and with no / single / mixed whitespace (spaces, tabs, newlines); one third of the texts are then corrupted at token level (identifier deleted, operator doubled or deleted, parenthesis deleted or inserted, trailing tokens). The harness's own reader of the documented grammar decides whether a text is well formed and what it means; bf.Parse must succeed and agree under every assignment (Eval), or fail with an error and a nil formula. " +
			"non-trivial = well-formed text of >= 5 tokens or malformed text of >= 3 tokens; distinct by token list",
		Assumptions: []string{
			"reference tokenizer / recursive-descent reader of the grammar documented in bf/doc.go and bf/parser.go (internal/ref)",
			"a malformed text ending in ';' is not asserted (bf.Parse tolerates a trailing ';'); identifiers are letters, digits and '_'",
		},
		Floors: map[string]map[string]int64{
			"quick":    {"wellformed_texts": 30000, "malformed_texts": 10000, "malformed_missing-operand": 2000, "malformed_unbalanced": 2000, "malformed_trailing-tokens": 2000},
			"thorough": {"wellformed_texts": 750000, "malformed_texts": 250000, "malformed_missing-operand": 50000, "malformed_unbalanced": 50000, "malformed_trailing-tokens": 50000},
		},
	})
}
