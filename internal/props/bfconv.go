package props

import (
	"github.com/crillab/gophersat/bf"

	"verif/internal/ref"
)

// ToBF builds the gophersat formula of a reference tree through the public constructors.
func ToBF(f *ref.F) bf.Formula {
	kids := func() []bf.Formula {
		res := make([]bf.Formula, len(f.Kids))
		for i, k := range f.Kids {
			res[i] = ToBF(k)
		}
		return res
	}
	switch f.Op {
	case "var":
		return bf.Var(f.Name)
	case "true":
		return bf.True
	case "false":
		return bf.False
	case "not":
		return bf.Not(ToBF(f.Kids[0]))
	case "and", "seq":
		return bf.And(kids()...)
	case "or":
		return bf.Or(kids()...)
	case "imp":
		return bf.Implies(ToBF(f.Kids[0]), ToBF(f.Kids[1]))
	case "eq":
		return bf.Eq(ToBF(f.Kids[0]), ToBF(f.Kids[1]))
	case "xor":
		return bf.Xor(ToBF(f.Kids[0]), ToBF(f.Kids[1]))
	case "uniq":
		return bf.Unique(append([]string{}, f.Names...)...)
	}
	panic("unknown op " + f.Op)
}

// treeEval returns the evaluation function that judges a case: the reference semantics of internal/ref, or, when
// a group lists a variable twice (dup; the documentation does not say what that means), the library's own Eval,
// so that Solve and Dimacs are only required to agree with what the library itself says the formula means.
func treeEval(f *ref.F, dup bool) func(map[string]bool) bool {
	if !dup {
		return f.Eval
	}
	lib := ToBF(f)
	return func(m map[string]bool) bool { return lib.Eval(m) }
}

// hasModelBy tells whether some assignment of vars satisfies eval.
func hasModelBy(vars []string, eval func(map[string]bool) bool) bool {
	for a := uint32(0); a < 1<<uint(len(vars)); a++ {
		if eval(ref.AssignOf(vars, a)) {
			return true
		}
	}
	return false
}
