package props

import (
	"github.com/crillab/gophersat/bf"

	"verif/internal/ref"
)

// ToBF builds the gophersat formula of a reference tree through the public constructors.
func ToBF(f *ref.F) bf.Formula {
	kids := func() []bf.Formula {
		res := make([]bf.Formula, len(f.Kids))
		for i, k := range f.Kids {
			res[i] = ToBF(k)
		}
		return res
	}
	switch f.Op {
	case "var":
		return bf.Var(f.Name)
	case "true":
		return bf.True
	case "false":
		return bf.False
	case "not":
		return bf.Not(ToBF(f.Kids[0]))
	case "and", "seq":
		return bf.And(kids()...)
	case "or":
		return bf.Or(kids()...)
	case "imp":
		return bf.Implies(ToBF(f.Kids[0]), ToBF(f.Kids[1]))
	case "eq":
		return bf.Eq(ToBF(f.Kids[0]), ToBF(f.Kids[1]))
	case "xor":
		return bf.Xor(ToBF(f.Kids[0]), ToBF(f.Kids[1]))
	case "uniq":
		return bf.Unique(append([]string{}, f.Names...)...)
	}
	panic("unknown op " + f.Op)
}
