package props

import (
	"fmt"

	"github.com/crillab/gophersat/solver"

	"verif/internal/gen"
	"verif/internal/ref"
)

// C02 — cardinality and pseudo-boolean constraints are decided correctly.

// C02Case is a conjunction of constraints with a front-end.
type C02Case struct {
	P     *ref.Problem `json:"p"`
	Front string       `json:"front"` // card | pb
	Limit int          `json:"limit"`
	Heavy bool         `json:"heavy,omitempty"` // a unit constraint fixes the heaviest literal of a weighted constraint
}

var c02Counts = map[string]int{"quick": 80_000, "thorough": 2_000_000}

func c02Gen(r *gen.Rng, tier string, idx int) interface{} {
	c := &C02Case{}
	hard := r.Chance(1, 3)
	if r.Chance(2, 5) {
		c.Front = "card"
		c.P = gen.RandomPBProblem(r, gen.PBOpts{MinVars: 1, MaxVars: 10, CardOnly: true, MaxCons: 9, Hard: hard})
	} else {
		c.Front = "pb"
		c.P = gen.RandomPBProblem(r, gen.PBOpts{MinVars: 1, MaxVars: 10, MaxW: r.Range(1, 6), NegCoefs: true, MaxCons: 8, Hard: hard})
	}
	c.Limit = []int{0, 0, 3}[r.Intn(3)]
	if c.Front == "pb" && r.Chance(1, 5) {
		// a unit constraint fixing the literal with the largest coefficient of a weighted constraint: the parser
		// removes that literal, which leaves the constraint with its literals in an unusual order
		var cand []int
		for i, l := range c.P.Cons {
			if len(l.Coefs) >= 3 {
				cand = append(cand, i)
			}
		}
		if len(cand) > 0 {
			l := c.P.Cons[cand[r.Intn(len(cand))]]
			best := 0
			for i, w := range l.Coefs {
				if abs(w) > abs(l.Coefs[best]) {
					best = i
				}
			}
			u := l.Lits[best]
			if r.Bool() {
				u = -u
			}
			pos := r.Intn(len(c.P.Cons) + 1)
			c.P.Cons = append(c.P.Cons, ref.Lin{})
			copy(c.P.Cons[pos+1:], c.P.Cons[pos:])
			c.P.Cons[pos] = ref.Cl(u)
			c.Heavy = true
		}
	}
	return c
}

// buildPBProblem builds the gophersat problem of p through the chosen front-end. Every slice handed
// over is a fresh copy: the constructors take ownership of and rewrite their arguments.
func buildPBProblem(p *ref.Problem, front string) *solver.Problem {
	if front == "card" {
		var cs []solver.CardConstr
		for _, l := range p.Cons {
			cs = append(cs, CardConstrsOf(l)...)
		}
		return solver.ParseCardConstrs(cs)
	}
	var cs []solver.PBConstr
	for _, l := range p.Cons {
		cs = append(cs, PBConstrsOf(l)...)
	}
	return solver.ParsePBConstrs(cs)
}

// checkModelAllCompletions checks model against p where variables beyond len(model) are free:
// both the all-false and the all-true completion must satisfy p.
func checkModelAllCompletions(p *ref.Problem, model []bool, n int) (bad int, a uint32) {
	a = ref.BoolsToAssign(model)
	if i := p.FirstViolated(a); i >= 0 {
		return i, a
	}
	if len(model) < n {
		hi := a
		for v := len(model); v < n; v++ {
			hi |= 1 << uint(v)
		}
		if i := p.FirstViolated(hi); i >= 0 {
			return i, hi
		}
	}
	return -1, a
}

func c02Run(ci interface{}, rec *Rec) {
	c := ci.(*C02Case)
	n := c.P.MaxVar()
	if n < c.P.N {
		n = c.P.N
	}
	expSat := c.P.Sat(n)
	if c.Heavy {
		rec.Count("cases_with_heaviest_literal_fixed_by_a_unit", 1)
	}
	scen := fmt.Sprintf("%s+Solve/limit=%d", map[string]string{"card": "ParseCardConstrs", "pb": "ParsePBConstrs"}[c.Front], c.Limit)
	SetLearnedLimit(c.Limit, true)
	var pb *solver.Problem
	if rec.Guard(scen+"/parse", func() { pb = buildPBProblem(c.P, c.Front) }) {
		return
	}
	if pb.Status == solver.Unsat && expSat {
		rec.Viol(scen, "wrong-verdict", "Problem.Status", "status Unsat after parsing but the constraints have a model")
	}
	if pb.Status == solver.Sat && !expSat {
		rec.Viol(scen, "wrong-verdict", "Problem.Status", "status Sat after parsing but the constraints have no model")
	}
	var s *solver.Solver
	var st solver.Status
	if rec.Guard(scen, func() {
		s = solver.New(pb)
		st = s.Solve()
	}) {
		return
	}
	rec.Count("solves", 1)
	rec.Count("conflicts", s.Stats.NbConflicts)
	switch st {
	case solver.Sat:
		rec.Count("sat", 1)
		if !expSat {
			rec.Viol(scen, "wrong-verdict", "Sat-for-unsat", "Solve answered Sat but no assignment satisfies the constraints")
		}
		var model []bool
		if rec.Guard(scen+"/Model", func() { model = s.Model() }) {
			return
		}
		if len(model) > n {
			rec.Viol(scen, "model-length", "Model", "model has %d values but only %d variables are mentioned", len(model), n)
		}
		if len(model) != pb.NbVars {
			rec.Viol(scen, "model-length", "Model", "model has %d values, Problem.NbVars is %d", len(model), pb.NbVars)
		}
		if bad, a := checkModelAllCompletions(c.P, model, n); bad >= 0 {
			rec.Viol(scen, "bad-model", "Model", "model %s violates constraint #%d: %s", ref.AssignString(a, n), bad, c.P.Cons[bad])
		}
	case solver.Unsat:
		rec.Count("unsat", 1)
		if expSat {
			rec.Viol(scen, "wrong-verdict", "Unsat-for-sat", "Solve answered Unsat but the constraints have a model")
		}
	default:
		rec.Viol(scen, "wrong-verdict", "Indet", "Solve answered %s", StatusName(st))
	}
	if s.Stats.NbDecisions > 0 {
		rec.Count("with_decisions", 1)
	}
	if s.Stats.NbConflicts > 0 {
		rec.Count("with_conflicts", 1)
	}
	if len(pb.Units) > 0 {
		rec.Count("with_parse_units", 1)
	}
	if s.Stats.NbDecisions > 0 && (s.Stats.NbConflicts > 0 || len(pb.Units) > 0) {
		rec.Interesting(JS(c.P.Cons) + c.Front)
	}
}

func init() {
	register(&Prop{
		ID:       "C02",
		NumCases: func(tier string) int { return c02Counts[tier] },
		Gen:      c02Gen,
		New:      func() interface{} { return &C02Case{} },
		Run:      c02Run,
		Setup:    func(string) { InstallSeqHooks() },
		Rule: "random conjunctions of 1..9 cardinality constraints (clauses, at-most-one, exactly-one, at-least/at-most/exactly k with k swept over <=0, inside, =len, >len) and weighted constraints (coefficients in [-W,W], W<=6, zero included, relations >=,<=,=, right-hand side swept below/inside/above the reachable sums) over 1..10 variables, each variable at most once per constraint, mixed with unit constraints; front-ends ParseCardConstrs and ParsePBConstrs through the public constructors (AtLeast/AtMost/GtEq/LtEq/Eq); judged by integer arithmetic over all assignments. " +
			"non-trivial = the solver made >=1 decision and (>=1 conflict or >=1 unit found at parse time); distinct by (constraint list, front-end)",
		Assumptions: []string{
			"reference integer-arithmetic truth table of internal/ref",
			"variables that occur only in constraints gophersat drops as trivially true may be absent from the model; the model is then required to satisfy the constraints under both the all-false and the all-true completion",
		},
		Floors: map[string]map[string]int64{
			"quick":    {"with_conflicts": 1000, "sat": 3000, "unsat": 3000},
			"thorough": {"with_conflicts": 25000, "sat": 75000, "unsat": 75000},
		},
	})
}
