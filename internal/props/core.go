// Package props holds one scenario file per property: generate a case, run the real gophersat
// code on it, and judge what was observed with the reference oracles of package ref.
package props

import (
	"encoding/json"
	"fmt"
	"regexp"
	"runtime/debug"
	"sort"
	"strings"

	"verif/internal/gen"
)

// Violation is one refuting observation.
type Violation struct {
	Scenario string `json:"scenario"`
	Kind     string `json:"kind"`
	Site     string `json:"site"`
	Detail   string `json:"detail"`
}

// Rec collects what a case observed.
type Rec struct {
	Viols      []Violation
	Counters   map[string]int64
	Maxes      map[string]int64
	NonTrivial bool
	Canon      uint64
	Inconcl    []string
	Tier       string
	Sample     interface{} // optional richer sample than the case itself
}

// NewRec returns an empty recorder.
func NewRec(tier string) *Rec {
	return &Rec{Counters: map[string]int64{}, Maxes: map[string]int64{}, Tier: tier}
}

// Viol records a violation.
func (r *Rec) Viol(scenario, kind, site, format string, args ...interface{}) {
	d := fmt.Sprintf(format, args...)
	if len(d) > 2000 {
		d = d[:2000] + "..."
	}
	r.Viols = append(r.Viols, Violation{scenario, kind, site, d})
}

// Count adds n to a named counter.
func (r *Rec) Count(key string, n int) { r.Counters[key] += int64(n) }

// Max keeps the maximum of a named value.
func (r *Rec) Max(key string, v int) {
	if int64(v) > r.Maxes[key] {
		r.Maxes[key] = int64(v)
	}
}

// Interesting marks the case non-trivial; canon identifies it for de-duplication.
func (r *Rec) Interesting(canon string) {
	r.NonTrivial = true
	r.Canon = gen.HashString(canon)
}

// Inconclusive records that (part of) the case could not be judged.
func (r *Rec) Inconclusive(format string, args ...interface{}) {
	r.Inconcl = append(r.Inconcl, fmt.Sprintf(format, args...))
}

// BudgetMsg is the prefix of the step-budget panic raised by the verif hooks.
const BudgetMsg = "verif: step budget exceeded at "

var digits = regexp.MustCompile(`[0-9]+`)
var hexaddr = regexp.MustCompile(`0x[0-9a-f]+`)

// MsgClass strips numbers from a panic message.
func MsgClass(msg string) string {
	msg = hexaddr.ReplaceAllString(msg, "#")
	msg = digits.ReplaceAllString(msg, "#")
	if len(msg) > 120 {
		msg = msg[:120]
	}
	return msg
}

var frameRe = regexp.MustCompile(`^github\.com/crillab/gophersat/([^\s(]+(?:\(\*?[A-Za-z]+\))?[^\s(]*)\(`)
var mainFrameRe = regexp.MustCompile(`^main\.([A-Za-z0-9_.]+)\(`)

// SiteFromStack returns the innermost gophersat function of a stack dump, line numbers stripped.
func SiteFromStack(stack string) string {
	lines := strings.Split(stack, "\n")
	for _, l := range lines {
		l = strings.TrimSpace(l)
		if strings.HasPrefix(l, "github.com/crillab/gophersat/") {
			if strings.Contains(l, "verifStep") || strings.Contains(l, "VerifGlobalStep") || strings.Contains(l, "verifGlobalStep") || strings.Contains(l, ".verif") {
				continue
			}
			i := strings.LastIndex(l, "(")
			if i > 0 {
				l = l[:i]
			}
			l = strings.TrimPrefix(l, "github.com/crillab/gophersat/")
			l = strings.TrimSuffix(l, ".func1")
			return l
		}
	}
	return "?"
}

// Guard runs f; a panic is recorded as a violation (kind panic or step-budget) and reported as true.
func (r *Rec) Guard(scenario string, f func()) (panicked bool) {
	defer func() {
		if e := recover(); e != nil {
			panicked = true
			msg := fmt.Sprint(e)
			stack := string(debug.Stack())
			// keep only the part of the stack below the panic call
			if i := strings.Index(stack, "panic("); i >= 0 {
				stack = stack[i:]
			}
			if strings.HasPrefix(msg, BudgetMsg) {
				r.Viol(scenario, "step-budget", strings.TrimPrefix(msg, BudgetMsg), "non-termination: %s\n%s", msg, trimStack(stack))
				return
			}
			site := SiteFromStack(stack)
			if site == "?" && scenario == "unguarded" {
				// no gophersat frame below the panic: an error of the harness itself, never attributed to the library
				r.Inconclusive("harness error: %s\n%s", msg, trimStack(stack))
				return
			}
			r.Viol(scenario, "panic", site+": "+MsgClass(msg), "panic: %s\n%s", msg, trimStack(stack))
		}
	}()
	f()
	return false
}

func trimStack(s string) string {
	lines := strings.Split(s, "\n")
	if len(lines) > 24 {
		lines = lines[:24]
	}
	return strings.Join(lines, "\n")
}

// Prop describes one property's workload.
type Prop struct {
	ID   string
	Race bool // worker must be built with -race
	// NumCases gives the number of cases of a tier.
	NumCases func(tier string) int
	// Gen builds case idx from its own generator. The result must be JSON-serialisable.
	Gen func(r *gen.Rng, tier string, idx int) interface{}
	// New returns an empty case for decoding a replay file.
	New func() interface{}
	// Run executes the case against gophersat and judges it.
	Run func(c interface{}, rec *Rec)
	// Rule describes generation and non-triviality for the evidence file.
	Rule        string
	Assumptions []string
	// Floors are minimal values of counters for the run to be conclusive, per tier.
	Floors map[string]map[string]int64
	// Procs is the GOMAXPROCS given to each worker (0: 2).
	Procs int
	// Setup is run once in the worker before the first case (hooks installation).
	Setup func(tier string)
}

// BeforeCase, if non nil, is called by the worker before each case.
var BeforeCase func()

// Registry of properties.
var Registry = map[string]*Prop{}

func register(p *Prop) { Registry[p.ID] = p }

// IDs returns the registered property ids in order.
func IDs() []string {
	var ids []string
	for id := range Registry {
		ids = append(ids, id)
	}
	sort.Strings(ids)
	return ids
}

// CaseSeed derives the seed of case idx.
func CaseSeed(seed uint64, prop string, idx int) uint64 {
	return gen.Mix(seed, gen.HashString(prop), uint64(idx))
}

// JS renders v as compact JSON for details.
func JS(v interface{}) string {
	b, err := json.Marshal(v)
	if err != nil {
		return fmt.Sprintf("%v", v)
	}
	return string(b)
}
