package props

import (
	"fmt"
	"sort"

	"github.com/crillab/gophersat/solver"

	"verif/internal/gen"
	"verif/internal/ref"
)

// C05 — model counting and enumeration are exact.

// C05Case is a problem whose models are counted and enumerated.
type C05Case struct {
	P     *ref.Problem `json:"p"`
	Front string       `json:"front"` // slicenb | dimacs | card | pb
	Limit int          `json:"limit"`
	Big   bool         `json:"big,omitempty"` // large planted instance judged with the counting DPLL
	CP    bool         `json:"cp,omitempty"`  // the counting / enumerating solvers use the cutting-planes strategy
}

var c05Counts = map[string]int{"quick": 60_000, "thorough": 1_500_000}

// c05BigEvery: one case out of c05BigEvery is a large planted instance judged with the counting DPLL.
const c05BigEvery = 40

func c05Gen(r *gen.Rng, tier string, idx int) interface{} {
	if idx%c05BigEvery == c05BigEvery-1 {
		// large planted 3-SAT: hard enough for LBD restarts and clause-database reductions to happen while
		// models are enumerated, constrained enough for the model set to stay small
		n := r.Range(120, 220)
		m := n * r.Range(620, 760) / 100
		c := &C05Case{Front: []string{"slicenb", "dimacs"}[r.Intn(2)], Big: true, Limit: []int{0, 0, 50}[r.Intn(3)]}
		c.P = ref.CNFToProblem(gen.Planted3SAT(r, n, m), n)
		return c
	}
	c := &C05Case{Front: []string{"slicenb", "slicenb", "dimacs", "card", "pb"}[r.Intn(5)]}
	c.Limit = []int{0, 0, 0, 3}[r.Intn(4)]
	switch c.Front {
	case "slicenb", "dimacs":
		var cnf [][]int
		var n int
		switch r.Intn(6) {
		case 0: // no or very few constraints
			n = r.Range(1, 8)
			for k := r.Intn(3); k > 0; k-- {
				cnf = append(cnf, r.DistinctLits(n, r.Range(1, min(3, n))))
			}
		case 1, 2: // long clauses over many variables: several decision levels per model
			n = r.Range(6, 11)
			for k := r.Range(2, 6); k > 0; k-- {
				cnf = append(cnf, r.DistinctLits(n, r.Range(3, min(6, n))))
			}
		default:
			cnf, n = gen.RandomCNF(r, gen.CNFOpts{MinVars: 1, MaxVars: 11, MaxLen: 5, Weird: true})
			if r.Bool() && len(cnf) > n {
				cnf = cnf[:n+r.Intn(len(cnf)-n)] // keep it satisfiable more often
			}
		}
		if mv := MaxVarCNF(cnf); mv > n {
			n = mv
		}
		c.P = ref.CNFToProblem(cnf, n)
	case "card":
		c.P = gen.RandomPBProblem(r, gen.PBOpts{MinVars: 1, MaxVars: 10, CardOnly: true, MaxCons: 5, Hard: r.Chance(1, 5)})
	case "pb":
		c.P = gen.RandomPBProblem(r, gen.PBOpts{MinVars: 1, MaxVars: 10, MaxW: r.Range(1, 5), NegCoefs: true, MaxCons: 5, Hard: r.Chance(1, 5)})
	}
	if mv := c.P.MaxVar(); mv > c.P.N {
		c.P.N = mv
	}
	c.CP = r.Chance(1, 5)
	return c
}

func c05Build(c *C05Case, rec *Rec, scen string) (pb *solver.Problem) {
	rec.Guard(scen+"/parse", func() {
		switch c.Front {
		case "slicenb", "dimacs":
			var cnf [][]int
			for _, l := range c.P.Cons {
				cnf = append(cnf, append([]int{}, l.Lits...))
			}
			if c.Front == "slicenb" {
				pb = solver.ParseSliceNb(cnf, c.P.N)
			} else {
				var err error
				pb, err = solver.ParseCNF(stringsReader(RenderDIMACS(cnf, c.P.N)))
				if err != nil {
					rec.Viol(scen+"/parse", "parse-error", "ParseCNF", "%v", err)
					pb = nil
				}
			}
		default:
			pb = buildPBProblem(c.P, c.Front)
		}
	})
	return pb
}

// expectedModels returns the sorted model set over nb variables of p (which mentions n >= nb variables).
// free is false if the variables above nb are not free.
func expectedModels(p *ref.Problem, nb, n int) (models []uint32, free bool) {
	free = true
	var hiMask uint32
	for v := nb; v < n; v++ {
		hiMask |= 1 << uint(v)
	}
	for a := uint32(0); a < 1<<uint(nb); a++ {
		lo, hi := p.Holds(a), p.Holds(a|hiMask)
		if lo != hi {
			free = false
		}
		if lo {
			models = append(models, a)
		}
	}
	return models, free
}

// c05RunBig judges CountModels and Enumerate on a large instance: the reference is the counting DPLL of
// internal/ref; every delivered assignment must satisfy every clause and be delivered once.
func c05RunBig(c *C05Case, rec *Rec) {
	front := map[string]string{"slicenb": "ParseSliceNb", "dimacs": "ParseCNF"}[c.Front]
	var cnf [][]int
	for _, l := range c.P.Cons {
		cnf = append(cnf, l.Lits)
	}
	n := c.P.N
	want, ok := ref.CountCNF(cnf, n, 200_000_000, 5_000)
	if !ok {
		rec.Count("big_skipped_too_many_models", 1)
		return
	}
	SetLearnedLimit(c.Limit, true)
	rec.Count("big_cases", 1)
	rec.Max("big_max_models", int(want))
	scen := fmt.Sprintf("%s/big+CountModels/limit=%d", front, c.Limit)
	if pb := c05Build(c, rec, scen); pb != nil {
		var s *solver.Solver
		count := -1
		if !rec.Guard(scen, func() {
			s = solver.New(pb)
			count = s.CountModels()
		}) {
			rec.Count("count_calls", 1)
			if uint64(count) != want {
				rec.Viol(scen, "wrong-count", "CountModels", "CountModels returned %d, the counting DPLL finds %d models over %d variables", count, want, n)
			}
			rec.Count("big_conflicts", s.Stats.NbConflicts)
			rec.Count("big_restarts", s.Stats.NbRestarts)
			rec.Count("big_deleted", s.Stats.NbDeleted)
			if s.Stats.NbRestarts > 0 {
				rec.Count("big_cases_with_restart", 1)
			}
		}
	}
	scen = fmt.Sprintf("%s/big+Enumerate/limit=%d", front, c.Limit)
	pb := c05Build(c, rec, scen)
	if pb == nil {
		return
	}
	ch := make(chan []bool, 256)
	ret := -1
	done := make(chan bool)
	var s *solver.Solver
	go func() {
		done <- rec.Guard(scen, func() {
			s = solver.New(pb)
			ret = s.Enumerate(ch, nil)
		})
	}()
	seen := map[string]bool{}
	nbGot, dups, bad, badLen := 0, 0, 0, 0
	for m := range ch {
		nbGot++
		if len(m) != n {
			badLen++
			continue
		}
		if i := ref.FirstFalsified(cnf, m); i >= 0 {
			if bad == 0 {
				rec.Viol(scen, "bad-model", "Enumerate", "delivered assignment #%d falsifies clause #%d %v", nbGot, i, cnf[i])
			}
			bad++
		}
		key := make([]byte, n)
		for i, b := range m {
			if b {
				key[i] = 1
			}
		}
		if seen[string(key)] {
			dups++
		}
		seen[string(key)] = true
	}
	if <-done {
		return
	}
	rec.Count("enumerate_calls", 1)
	rec.Count("models_received", nbGot)
	if badLen > 0 {
		rec.Viol(scen, "model-length", "Enumerate", "%d delivered models do not have %d values", badLen, n)
	}
	if ret != nbGot {
		rec.Viol(scen, "wrong-count", "Enumerate", "Enumerate returned %d but delivered %d models", ret, nbGot)
	}
	if dups > 0 {
		rec.Viol(scen, "duplicate-model", "Enumerate", "%d models delivered more than once (%d delivered, %d expected)", dups, nbGot, want)
	}
	if bad == 0 && dups == 0 && badLen == 0 && uint64(nbGot) != want {
		rec.Viol(scen, "wrong-count", "Enumerate", "%d distinct models delivered, the counting DPLL finds %d", nbGot, want)
	}
	if want >= 2 && s != nil && s.Stats.NbConflicts >= 50 {
		rec.Interesting(JS(c.P.Cons) + c.Front)
		rec.Count("with_2plus_models", 1)
		rec.Count("big_enumerations_with_50plus_conflicts", 1)
	}
	if s != nil && s.Stats.NbRestarts > 0 {
		rec.Count("big_enumerations_with_restart", 1)
	}
}

func c05Run(ci interface{}, rec *Rec) {
	c := ci.(*C05Case)
	if c.Big {
		c05RunBig(c, rec)
		return
	}
	p := c.P
	front := map[string]string{"slicenb": "ParseSliceNb", "dimacs": "ParseCNF", "card": "ParseCardConstrs", "pb": "ParsePBConstrs"}[c.Front]
	if c.CP {
		front += "/cp"
		rec.Count("cases_with_cutting_planes", 1)
	}
	SetLearnedLimit(c.Limit, true)
	// 1. CountModels
	scen := fmt.Sprintf("%s+CountModels/limit=%d", front, c.Limit)
	pb := c05Build(c, rec, scen)
	if pb == nil {
		return
	}
	nb := pb.NbVars
	if pb.Status == solver.Unsat && pb.Model == nil { // trivially unsat before variables were registered
		nb = p.N
	}
	if nb > p.N {
		rec.Viol(scen, "model-length", "NbVars", "NbVars=%d but only %d variables are mentioned or declared", nb, p.N)
		return
	}
	exp, free := expectedModels(p, nb, p.N)
	if !free {
		rec.Viol(scen, "model-length", "NbVars", "NbVars=%d drops variables that are constrained (highest mentioned %d)", nb, p.N)
		return
	}
	var s *solver.Solver
	count := -1
	if !rec.Guard(scen, func() {
		s = solver.New(pb)
		s.CuttingPlanes = c.CP
		count = s.CountModels()
	}) {
		rec.Count("count_calls", 1)
		if count != len(exp) {
			rec.Viol(scen, "wrong-count", "CountModels", "CountModels returned %d, the problem has %d models over %d variables", count, len(exp), nb)
		}
		rec.Count("conflicts", s.Stats.NbConflicts)
	}
	// 2. Enumerate with a channel
	scen = fmt.Sprintf("%s+Enumerate/limit=%d", front, c.Limit)
	if pb = c05Build(c, rec, scen); pb != nil {
		ch := make(chan []bool)
		ret := -1
		done := make(chan bool)
		go func() {
			panicked := rec.Guard(scen, func() {
				s = solver.New(pb)
				s.CuttingPlanes = c.CP
				ret = s.Enumerate(ch, nil)
			})
			done <- panicked
		}()
		var got []uint32
		badLen := -1
		for m := range ch {
			if len(m) != nb {
				badLen = len(m)
			}
			got = append(got, ref.BoolsToAssign(m))
		}
		panicked := <-done
		if !panicked {
			rec.Count("enumerate_calls", 1)
			rec.Count("models_received", len(got))
			if badLen >= 0 {
				rec.Viol(scen, "model-length", "Enumerate", "a delivered model has %d values, %d variables are declared", badLen, nb)
			}
			if ret != len(got) {
				rec.Viol(scen, "wrong-count", "Enumerate", "Enumerate returned %d but delivered %d models", ret, len(got))
			}
			sort.Slice(got, func(i, j int) bool { return got[i] < got[j] })
			dup, extra, missing := diffModels(got, exp)
			if dup >= 0 {
				rec.Viol(scen, "duplicate-model", "Enumerate", "model %s delivered more than once (%d delivered, %d expected)", ref.AssignString(uint32(dup), nb), len(got), len(exp))
			}
			if extra >= 0 {
				rec.Viol(scen, "bad-model", "Enumerate", "delivered assignment %s is not a model", ref.AssignString(uint32(extra), nb))
			}
			if missing >= 0 {
				rec.Viol(scen, "wrong-count", "Enumerate", "model %s was never delivered (%d delivered, %d expected)", ref.AssignString(uint32(missing), nb), len(got), len(exp))
			}
			if s != nil && s.Stats.NbDecisions >= 3 && len(exp) >= 2 {
				rec.Interesting(JS(p.Cons) + c.Front)
			}
			if len(exp) >= 2 {
				rec.Count("with_2plus_models", 1)
			}
			if len(exp) == 0 {
				rec.Count("unsat", 1)
			}
		}
	}
	// 3. Enumerate without channel
	scen = fmt.Sprintf("%s+Enumerate(nil)/limit=%d", front, c.Limit)
	if pb = c05Build(c, rec, scen); pb != nil {
		ret := -1
		if !rec.Guard(scen, func() {
			s = solver.New(pb)
			s.CuttingPlanes = c.CP
			ret = s.Enumerate(nil, nil)
		}) && ret != len(exp) {
			rec.Viol(scen, "wrong-count", "Enumerate", "Enumerate(nil) returned %d, the problem has %d models", ret, len(exp))
		}
	}
}

// diffModels compares sorted multisets; returns a duplicated, an extra and a missing element (or -1).
func diffModels(got, exp []uint32) (dup, extra, missing int64) {
	dup, extra, missing = -1, -1, -1
	for i := 1; i < len(got); i++ {
		if got[i] == got[i-1] {
			dup = int64(got[i])
			break
		}
	}
	expSet := make(map[uint32]bool, len(exp))
	for _, e := range exp {
		expSet[e] = true
	}
	gotSet := make(map[uint32]bool, len(got))
	for _, g := range got {
		gotSet[g] = true
		if !expSet[g] && extra < 0 {
			extra = int64(g)
		}
	}
	for _, e := range exp {
		if !gotSet[e] {
			missing = int64(e)
			break
		}
	}
	return
}

func init() {
	register(&Prop{
		ID:       "C05",
		NumCases: func(tier string) int { return c05Counts[tier] },
		Gen:      c05Gen,
		New:      func() interface{} { return &C05Case{} },
		Run:      c05Run,
		Setup:    func(string) { InstallSeqHooks() },
		Rule: "random problems over 1..11 declared variables: CNF through ParseSliceNb and ParseCNF (no constraint at all, few long clauses so that models need several decision levels, uniform, decided at parse time, partly unused variables), cardinality through ParseCardConstrs, PB through ParsePBConstrs; CountModels, Enumerate(channel) and Enumerate(nil) each on a fresh solver; the delivered multiset is compared with the truth-table model set. One case in 40 is a planted 3-SAT instance over 120..220 variables with at most 5000 models (hard enough for restarts and clause-database reductions to happen between two models): CountModels and Enumerate are compared with the counting DPLL of internal/ref, every delivered assignment is evaluated against the clauses and must be delivered once. " +
			"non-trivial = >=2 models and the enumerating solver made >=3 decisions; distinct by (constraints, front-end)",
		Assumptions: []string{
			"reference truth table of internal/ref; counting DPLL of internal/ref for the large instances (self-tested against the truth table on 20000 small formulas, go test ./internal/ref)",
			"the declared variables are Problem.NbVars as gophersat reports it; variables above it must be free in the reference problem (checked)",
		},
		Floors: map[string]map[string]int64{
			"quick":    {"with_2plus_models": 5000, "models_received": 200000, "unsat": 500, "big_cases": 400},
			"thorough": {"with_2plus_models": 125000, "models_received": 5000000, "unsat": 12000, "big_cases": 10000},
		},
	})
}
