package props

import (
	"fmt"
	"reflect"
	"strings"

	"github.com/crillab/gophersat/explain"
	"github.com/crillab/gophersat/maxsat"
	"github.com/crillab/gophersat/solver"

	"verif/internal/gen"
	"verif/internal/ref"
)

// C13 — DIMACS, OPB and WCNF texts mean what their formats say.

// C13Case is an abstract problem, the text rendered from it and the reader it is meant for.
type C13Case struct {
	Reader   string       `json:"reader"` // cnf | ecnf | opb | wcnf
	P        *ref.Problem `json:"p,omitempty"`
	M        *gen.MaxSat  `json:"m,omitempty"`
	Declared int          `json:"declared,omitempty"`
	Text     string       `json:"text"`
	Fix      []int        `json:"fix,omitempty"` // opb: extra unit constraints fixing every variable (a model whose cost is probed)
}

var c13Counts = map[string]int{"quick": 40_000, "thorough": 800_000}

func c13Gen(r *gen.Rng, tier string, idx int) interface{} {
	c := &C13Case{Reader: []string{"cnf", "cnf", "ecnf", "opb", "opb", "wcnf"}[r.Intn(6)]}
	switch c.Reader {
	case "cnf", "ecnf":
		cnf, n := gen.RandomCNF(r, gen.CNFOpts{MinVars: 1, MaxVars: 10, MaxLen: 5, Weird: true})
		if r.Bool() && len(cnf) > n+2 {
			cnf = cnf[:n+2]
		}
		if c.Reader == "ecnf" { // line based: no empty clause lines mixed up with nothing
			var c2 [][]int
			for _, cl := range cnf {
				if len(cl) > 0 {
					c2 = append(c2, cl)
				}
			}
			cnf = c2
		}
		c.P = ref.CNFToProblem(cnf, n)
		c.Declared = n
		if c.Reader == "cnf" {
			c.Text = gen.DimacsLayout(r, cnf, n)
		} else {
			c.Text = gen.DimacsLineLayout(r, cnf, n)
		}
	case "opb":
		c.P = gen.RandomPBProblem(r, gen.PBOpts{MinVars: 1, MaxVars: 9, MaxW: r.Range(1, 5), NegCoefs: true, MaxCons: 6, Hard: r.Chance(1, 6)})
		c.P.N = max(c.P.MaxVar(), 1)
		if r.Chance(2, 3) {
			c.P.HasCost = true
			c.P.CostLits, c.P.CostW = gen.RandomCost(r, c.P.N, r.Range(1, 5), r.Chance(1, 3), false)
		}
		if len(c.P.Cons) == 0 {
			c.P.Cons = append(c.P.Cons, ref.Cl(1))
		}
		c.P.N = max(c.P.MaxVar(), 1)
		c.Text = gen.OPBLayout(r, c.P)
	case "wcnf":
		c.M = gen.RandomMaxSat(r, 8, true)
		c.Declared = max(c.M.MaxVar(), 1)
		if r.Chance(1, 3) {
			c.Declared += r.Range(1, 3)
		}
		c.Text = gen.WCNFLayout(r, c.M, c.Declared, len(c.M.Hard) > 0 || r.Bool())
	}
	return c
}

// EvalSolverProblem evaluates a parsed solver.Problem under assignment a through its public accessors only.
func EvalSolverProblem(pb *solver.Problem, a uint32) bool {
	if pb.Status == solver.Unsat {
		return false
	}
	for _, u := range pb.Units {
		if !ref.LitTrue(int(u.Int()), a) {
			return false
		}
	}
	for _, c := range pb.Clauses {
		sum := 0
		for j := 0; j < c.Len(); j++ {
			if ref.LitTrue(int(c.Get(j).Int()), a) {
				sum += c.Weight(j)
			}
		}
		if sum < c.Cardinality() {
			return false
		}
	}
	return true
}

// compareModels compares the parsed problem with the abstract one over n variables.
func compareModels(rec *Rec, scen string, pb *solver.Problem, p *ref.Problem, n int, text string) bool {
	nbModels := 0
	for a := uint32(0); a < 1<<uint(n); a++ {
		want := p.Holds(a)
		var got bool
		if rec.Guard(scen+"/accessors", func() { got = EvalSolverProblem(pb, a) }) {
			return false
		}
		if want {
			nbModels++
		}
		if got != want {
			rec.Viol(scen, "wrong-parse", "models", "assignment %s: the text says %v, the parsed problem says %v\n%s", ref.AssignString(a, n), want, got, text)
			return false
		}
	}
	rec.Count("assignments_compared", 1<<uint(n))
	if nbModels == 0 {
		rec.Count("unsat_texts", 1)
	}
	return true
}

func c13Run(ci interface{}, rec *Rec) {
	c := ci.(*C13Case)
	SetLearnedLimit(0, false)
	switch c.Reader {
	case "cnf":
		scen := "solver.ParseCNF"
		var pb *solver.Problem
		var err error
		if rec.Guard(scen, func() { pb, err = solver.ParseCNF(strings.NewReader(c.Text)) }) {
			return
		}
		rec.Count("texts_cnf", 1)
		if err != nil {
			rec.Viol(scen, "parse-error", "ParseCNF", "well-formed DIMACS text rejected: %v\n%q", err, c.Text)
			return
		}
		if pb.NbVars != c.Declared {
			rec.Viol(scen, "wrong-parse", "NbVars", "header declares %d variables, parsed problem has %d", c.Declared, pb.NbVars)
			return
		}
		if compareModels(rec, scen, pb, c.P, c.Declared, c.Text) {
			rec.Interesting(c.Text)
		}
	case "ecnf":
		scen := "explain.ParseCNF"
		var pb *explain.Problem
		var err error
		if rec.Guard(scen, func() { pb, err = explain.ParseCNF(strings.NewReader(c.Text)) }) {
			return
		}
		rec.Count("texts_ecnf", 1)
		if err != nil {
			rec.Viol(scen, "parse-error", "explain.ParseCNF", "well-formed DIMACS text rejected: %v\n%q", err, c.Text)
			return
		}
		var want [][]int
		for _, l := range c.P.Cons {
			want = append(want, l.Lits)
		}
		if pb.NbVars != c.Declared || pb.NbClauses != len(want) || len(pb.Clauses) != len(want) {
			rec.Viol(scen, "wrong-parse", "header", "parsed NbVars=%d NbClauses=%d len(Clauses)=%d, text has %d variables and %d clauses", pb.NbVars, pb.NbClauses, len(pb.Clauses), c.Declared, len(want))
			return
		}
		for i := range want {
			if !reflect.DeepEqual(append([]int{}, want[i]...), append([]int{}, pb.Clauses[i]...)) {
				rec.Viol(scen, "wrong-parse", "clauses", "clause #%d is %v in the text, %v after parsing", i, want[i], pb.Clauses[i])
				return
			}
		}
		rec.Count("clauses_compared", len(want))
		rec.Interesting(c.Text)
	case "opb":
		scen := "solver.ParseOPB"
		var pb *solver.Problem
		var err error
		if rec.Guard(scen, func() { pb, err = solver.ParseOPB(strings.NewReader(c.Text)) }) {
			return
		}
		rec.Count("texts_opb", 1)
		if err != nil {
			rec.Viol(scen, "parse-error", "ParseOPB", "well-formed OPB text rejected: %v\n%q", err, c.Text)
			return
		}
		n := c.P.N
		if pb.NbVars != n && pb.Status != solver.Unsat {
			rec.Viol(scen, "wrong-parse", "NbVars", "highest variable in the text is %d, parsed problem has %d variables", n, pb.NbVars)
			return
		}
		if !compareModels(rec, scen, pb, c.P, n, c.Text) {
			return
		}
		rec.Interesting(c.Text)
		if pb.Optim() != c.P.HasCost {
			rec.Viol(scen, "wrong-parse", "cost", "text has a min: line = %v, parsed problem is an optimisation problem = %v", c.P.HasCost, pb.Optim())
			return
		}
		if !c.P.HasCost {
			return
		}
		// optimum through the solver, then the cost of up to 3 individual models by fixing every variable in the text
		min, sat := c.P.MinCost(n)
		var res solver.Result
		if rec.Guard(scen+"+Optimal", func() { res = solver.New(pb).Optimal(nil, nil) }) {
			return
		}
		if sat != (res.Status == solver.Sat) || (sat && res.Weight != min) {
			rec.Viol(scen+"+Optimal", "wrong-parse", "cost", "the text has optimum (%v,%d), solving the parsed problem gives (%s,%d)\n%s", sat, min, StatusName(res.Status), res.Weight, c.Text)
			return
		}
		models := c.P.Models(n)
		r := gen.New(gen.HashString(c.Text))
		for k := 0; k < 3 && len(models) > 0; k++ {
			a := models[r.Intn(len(models))]
			var sb strings.Builder
			sb.WriteString(c.Text)
			for v := 1; v <= n; v++ {
				if ref.LitTrue(v, a) {
					fmt.Fprintf(&sb, "+1 x%d >= 1 ;\n", v)
				} else {
					fmt.Fprintf(&sb, "+1 ~x%d >= 1 ;\n", v)
				}
			}
			var pb2 *solver.Problem
			var res2 solver.Result
			if rec.Guard(scen+"+Optimal(fixed)", func() {
				pb2, err = solver.ParseOPB(strings.NewReader(sb.String()))
				if err == nil {
					res2 = solver.New(pb2).Optimal(nil, nil)
				}
			}) {
				return
			}
			if err != nil {
				rec.Viol(scen, "parse-error", "ParseOPB", "well-formed OPB text rejected: %v\n%q", err, sb.String())
				return
			}
			if res2.Status != solver.Sat || res2.Weight != c.P.Cost(a) {
				rec.Viol(scen+"+Optimal(fixed)", "wrong-parse", "cost", "model %s has cost %d in the text, the parsed problem reports (%s,%d)\n%s", ref.AssignString(a, n), c.P.Cost(a), StatusName(res2.Status), res2.Weight, sb.String())
				return
			}
			rec.Count("model_costs_probed", 1)
		}
	case "wcnf":
		scen := "maxsat.ParseWCNF"
		var s solver.Interface
		var err error
		if rec.Guard(scen, func() { s, err = maxsat.ParseWCNF(strings.NewReader(c.Text)) }) {
			return
		}
		rec.Count("texts_wcnf", 1)
		if err != nil {
			rec.Viol(scen, "parse-error", "ParseWCNF", "well-formed WCNF text rejected: %v\n%q", err, c.Text)
			return
		}
		var res solver.Result
		if rec.Guard(scen+"+Optimal", func() { res = s.Optimal(nil, nil) }) {
			return
		}
		opt, sat := c.M.Optimum(c.Declared)
		if sat != (res.Status == solver.Sat) {
			rec.Viol(scen+"+Optimal", "wrong-parse", "verdict", "the text's hard clauses are satisfiable = %v, answer %s\n%s", sat, StatusName(res.Status), c.Text)
			return
		}
		if sat {
			if len(res.Model) != c.Declared {
				rec.Viol(scen+"+Optimal", "wrong-parse", "model-length", "header declares %d variables, the model has %d values", c.Declared, len(res.Model))
				return
			}
			cost, ok := c.M.Cost(ref.BoolsToAssign(res.Model))
			if !ok || cost != res.Weight || res.Weight != opt {
				rec.Viol(scen+"+Optimal", "wrong-parse", "cost", "optimum of the text is %d; answer has weight %d, its model costs %d (hard clauses satisfied: %v)\n%s", opt, res.Weight, cost, ok, c.Text)
				return
			}
		}
		rec.Interesting(c.Text)
	}
}

func init() {
	register(&Prop{
		ID:       "C13",
		NumCases: func(tier string) int { return c13Counts[tier] },
		Gen:      c13Gen,
		New:      func() interface{} { return &C13Case{} },
		Run:      c13Run,
		Setup:    func(string) { InstallSeqHooks() },
		Rule: "an abstract problem is generated first and is the reference; it is rendered with random legal layout and parsed: DIMACS for solver.ParseCNF (comment lines before the header, between clauses and after blank lines; spaces, tabs, line breaks inside clauses, several clauses per line, CRLF, missing final newline, unused declared variables, empty / unit / duplicate-literal / tautological clauses), line-based DIMACS for explain.ParseCNF (comments, blank lines, extra spaces), OPB for solver.ParseOPB ('*' comments anywhere, optional min: line, signed coefficients with or without '+', ~x literals, >= and =, signed right-hand sides, free spacing, optional space before ';'), WCNF for maxsat.ParseWCNF ('c' lines, header with or without top, free spacing, declared >= used). The parsed problem is evaluated through the public accessors under every assignment (solver.Problem), compared clause by clause (explain.Problem) or solved (optimum, cost of individual models pinned by unit constraints, model length). " +
			"non-trivial = text parsed and compared; distinct by text",
		Assumptions: []string{
			"reference semantics of the three formats as implemented by the renderers of internal/gen and the evaluators of internal/ref",
			"layout freedoms not clearly granted by the formats are not rendered: leading blanks before 'c'/'p'/'*', trailing blanks after ';', whitespace-only lines in OPB/WCNF, clauses split over lines for the line-based readers, a header without end of line",
			"OPB has no variable count the reader uses: the variables are 1..highest variable mentioned",
		},
		Floors: map[string]map[string]int64{
			"quick":    {"texts_cnf": 8000, "texts_ecnf": 4000, "texts_opb": 8000, "texts_wcnf": 4000, "model_costs_probed": 5000},
			"thorough": {"texts_cnf": 160000, "texts_ecnf": 80000, "texts_opb": 160000, "texts_wcnf": 80000, "model_costs_probed": 100000},
		},
	})
}
