package props

import (
	"fmt"
	"reflect"
	"strings"

	"github.com/crillab/gophersat/explain"
	"github.com/crillab/gophersat/solver"

	"verif/internal/gen"
	"verif/internal/ref"
)

// C18 — printed problems read back as equivalent problems.

// C18Case is a problem, the way it is built, and for the solver printer a short history.
type C18Case struct {
	Kind  string       `json:"kind"` // problem | solver | explain
	P     *ref.Problem `json:"p"`
	Front string       `json:"front"` // slice | slicenb | dimacs | card | pb | opb
	Ops   []gen.Op     `json:"ops,omitempty"`
}

var c18Counts = map[string]int{"quick": 30_000, "thorough": 600_000}

func c18Gen(r *gen.Rng, tier string, idx int) interface{} {
	c := &C18Case{Kind: []string{"problem", "problem", "problem", "solver", "explain"}[r.Intn(5)]}
	cnfProblem := func(noEmpty bool) *ref.Problem {
		cnf, n := gen.RandomCNF(r, gen.CNFOpts{MinVars: 1, MaxVars: 9, MaxLen: 4, Weird: true})
		if r.Bool() && len(cnf) > n+1 {
			cnf = cnf[:n+1]
		}
		if noEmpty {
			var c2 [][]int
			for _, cl := range cnf {
				if len(cl) > 0 {
					c2 = append(c2, cl)
				}
			}
			cnf = c2
		}
		if mv := MaxVarCNF(cnf); mv > n {
			n = mv
		}
		return ref.CNFToProblem(cnf, n)
	}
	switch c.Kind {
	case "explain":
		c.P = cnfProblem(true)
		c.Front = "explain"
	case "solver":
		c.Front = []string{"cnf", "card", "pb", "opb"}[r.Intn(4)]
		base := c.Front
		if base == "opb" {
			base = "pb"
		}
		c.P, c.Ops = gen.RandomHistory(r, base)
		if r.Chance(1, 2) && c.P.MaxVar() > 0 {
			c.P.HasCost = true
			c.P.CostLits, c.P.CostW = gen.RandomCost(r, c.P.MaxVar(), 4, c.Front == "opb" && r.Bool(), r.Chance(1, 4) && c.Front != "opb")
		}
		if c.Front == "opb" {
			c.P.N = max(c.P.MaxVar(), 1)
		}
	default:
		c.Front = []string{"slice", "slicenb", "dimacs", "card", "pb", "pb", "opb", "opb"}[r.Intn(8)]
		switch c.Front {
		case "slice", "slicenb", "dimacs":
			c.P = cnfProblem(false)
		case "card":
			c.P = gen.RandomPBProblem(r, gen.PBOpts{MinVars: 1, MaxVars: 9, CardOnly: true, MaxCons: 6})
		default:
			c.P = gen.RandomPBProblem(r, gen.PBOpts{MinVars: 1, MaxVars: 9, MaxW: r.Range(1, 5), NegCoefs: true, MaxCons: 6})
		}
		if mv := c.P.MaxVar(); mv > c.P.N || c.Front == "card" || c.Front == "pb" || c.Front == "opb" {
			c.P.N = max(mv, 1)
		}
		if (c.Front == "card" || c.Front == "pb" || c.Front == "opb") && r.Chance(2, 3) && c.P.MaxVar() > 0 {
			c.P.HasCost = true
			c.P.CostLits, c.P.CostW = gen.RandomCost(r, c.P.MaxVar(), 4, c.Front == "opb" && r.Chance(1, 3), r.Chance(1, 5) && c.Front != "opb")
		}
	}
	return c
}

// c18Build builds the original problem object.
func c18Build(c *C18Case, rec *Rec, scen string) (pb *solver.Problem) {
	p := c.P
	rec.Guard(scen+"/build", func() {
		var cnf [][]int
		for _, l := range p.Cons {
			cnf = append(cnf, append([]int{}, l.Lits...))
		}
		switch c.Front {
		case "slice":
			pb = solver.ParseSlice(cnf)
		case "slicenb", "cnf":
			pb = solver.ParseSliceNb(cnf, p.N)
		case "dimacs":
			pb, _ = solver.ParseCNF(strings.NewReader(RenderDIMACS(cnf, p.N)))
		case "card", "pb":
			pb = buildPBProblem(p, c.Front)
		case "opb":
			pb, _ = solver.ParseOPB(strings.NewReader(RenderOPB(p)))
			return
		}
		if p.HasCost && pb != nil && pb.NbVars >= p.MaxVar() {
			pb.SetCostFunc(ToLits(p.CostLits), CopyInts(p.CostW))
		}
	})
	return pb
}

// sameModels compares two model predicates over n variables; extra variables of the second one must be free.
func sameModels(rec *Rec, scen, what string, n int, orig func(uint32) bool, n2 int, got func(uint32) bool, text string) bool {
	if n2 > n {
		rec.Viol(scen, "roundtrip-mismatch", "variables", "%s: the text mentions %d variables, the problem has %d\n%s", what, n2, n, text)
		return false
	}
	for a := uint32(0); a < 1<<uint(n); a++ {
		if orig(a) != got(a) {
			rec.Viol(scen, "roundtrip-mismatch", "models", "%s: assignment %s is a model of the problem = %v, of the text read back = %v\n%s", what, ref.AssignString(a, n), orig(a), got(a), text)
			return false
		}
	}
	rec.Count("assignments_compared", 1<<uint(n))
	return true
}

// checkOPBText judges an OPB rendering against the original models (orig over n variables) and cost.
func checkOPBText(rec *Rec, scen string, text string, n int, orig func(uint32) bool, p *ref.Problem, hasCost bool) {
	rec.Count("opb_texts", 1)
	// 1. well formed for the harness's own reader, and same models / costs under it
	rp, err := ref.ReadOPB(text)
	if err != nil {
		rec.Viol(scen, "malformed-print", "OPB", "the printed text is not well-formed OPB: %v\n%s", err, text)
		return
	}
	if !sameModels(rec, scen, "own reader", n, orig, rp.N, rp.Holds, text) {
		return
	}
	anyModel := false
	for a := uint32(0); a < 1<<uint(n) && !anyModel; a++ {
		anyModel = orig(a)
	}
	if !anyModel {
		hasCost = rp.HasCost // no model: "the same cost for each model" is vacuous, the objective line is not asserted
	}
	if rp.HasCost != hasCost {
		rec.Viol(scen, "roundtrip-mismatch", "cost", "the problem has a cost function = %v, the printed text has a min: line = %v\n%s", hasCost, rp.HasCost, text)
		return
	}
	if hasCost {
		for a := uint32(0); a < 1<<uint(n); a++ {
			if orig(a) && rp.Cost(a) != p.Cost(a) {
				rec.Viol(scen, "roundtrip-mismatch", "cost", "model %s costs %d in the problem, %d in the printed text\n%s", ref.AssignString(a, n), p.Cost(a), rp.Cost(a), text)
				return
			}
		}
		rec.Count("cost_functions_compared", 1)
	}
	// 2. gophersat's own parser reads it back to an equivalent problem
	var pb2 *solver.Problem
	if rec.Guard(scen+"/reparse", func() { pb2, err = solver.ParseOPB(strings.NewReader(text)) }) {
		return
	}
	if err != nil {
		rec.Viol(scen, "roundtrip-mismatch", "reparse", "ParseOPB rejects the printed text: %v\n%s", err, text)
		return
	}
	if !sameModels(rec, scen, "ParseOPB", n, orig, pb2.NbVars, func(a uint32) bool { return EvalSolverProblem(pb2, a) }, text) {
		return
	}
	if anyModel && pb2.Optim() != hasCost {
		rec.Viol(scen, "roundtrip-mismatch", "cost", "cost function present = %v, after ParseOPB of the printed text = %v", hasCost, pb2.Optim())
		return
	}
	if hasCost {
		min, sat := 0, false
		for a := uint32(0); a < 1<<uint(n); a++ {
			if orig(a) {
				if c := p.Cost(a); !sat || c < min {
					min, sat = c, true
				}
			}
		}
		var res solver.Result
		if rec.Guard(scen+"/reparse+Optimal", func() { res = solver.New(pb2).Optimal(nil, nil) }) {
			return
		}
		if sat != (res.Status == solver.Sat) || (sat && res.Weight != min) {
			rec.Viol(scen, "roundtrip-mismatch", "cost", "optimum of the problem is (%v,%d), of the text read back (%s,%d)\n%s", sat, min, StatusName(res.Status), res.Weight, text)
		}
	}
}

func c18Run(ci interface{}, rec *Rec) {
	c := ci.(*C18Case)
	p := c.P
	SetLearnedLimit(0, false)
	switch c.Kind {
	case "explain":
		scen := "explain.Problem.CNF"
		var cnf [][]int
		for _, l := range p.Cons {
			cnf = append(cnf, l.Lits)
		}
		pb := explainParse(cnf, p.N, rec, scen)
		if pb == nil {
			return
		}
		var text string
		if rec.Guard(scen, func() { text = pb.CNF() }) {
			return
		}
		rec.Count("dimacs_texts", 1)
		d, err := ref.ReadDimacs(text)
		if err != nil {
			rec.Viol(scen, "malformed-print", "DIMACS", "the printed text is not well-formed DIMACS: %v\n%s", err, text)
			return
		}
		if d.NbVars != p.N || !reflect.DeepEqual(fmt.Sprint(d.Clauses), fmt.Sprint(cnf)) {
			rec.Viol(scen, "roundtrip-mismatch", "clauses", "printed text has %d variables and clauses %v, the problem has %d and %v", d.NbVars, d.Clauses, p.N, cnf)
			return
		}
		pb2 := explainParse(d.Clauses, d.NbVars, rec, scen+"/reparse")
		if pb2 == nil {
			return
		}
		var pb3 *explain.Problem
		var perr error
		if rec.Guard(scen+"/reparse", func() { pb3, perr = explain.ParseCNF(strings.NewReader(text)) }) {
			return
		}
		if perr != nil || fmt.Sprint(pb3.Clauses) != fmt.Sprint(pb.Clauses) || pb3.NbVars != pb.NbVars {
			rec.Viol(scen, "roundtrip-mismatch", "reparse", "explain.ParseCNF of the printed text gives (%v, %v), the problem was %v", perr, pb3, pb.Clauses)
			return
		}
		rec.Interesting(text)
	case "problem":
		scen := map[string]string{"slice": "ParseSlice", "slicenb": "ParseSliceNb", "dimacs": "ParseCNF", "card": "ParseCardConstrs", "pb": "ParsePBConstrs", "opb": "ParseOPB"}[c.Front]
		pb := c18Build(c, rec, scen)
		if pb == nil {
			return
		}
		n := pb.NbVars
		hasCost := pb.Optim()
		if pb.Status == solver.Unsat && pb.Model == nil && n < p.N {
			n = p.N // trivially unsat before all variables were registered
		}
		if n > 12 {
			return
		}
		orig := func(a uint32) bool { return EvalSolverProblem(pb, a) }
		if pb.Status == solver.Unsat {
			rec.Count("unsat_status_problems", 1)
		}
		if pb.Status == solver.Sat {
			rec.Count("sat_status_problems", 1)
		}
		if c.Front == "slice" || c.Front == "slicenb" || c.Front == "dimacs" {
			var text string
			s := scen + "+Problem.CNF"
			if rec.Guard(s, func() { text = pb.CNF() }) {
				return
			}
			rec.Count("dimacs_texts", 1)
			d, err := ref.ReadDimacs(text)
			if err != nil {
				rec.Viol(s, "malformed-print", "DIMACS", "the printed text is not well-formed DIMACS: %v\n%s", err, text)
				return
			}
			dp := ref.CNFToProblem(d.Clauses, d.NbVars)
			if d.NbVars != n && pb.Status != solver.Unsat {
				rec.Viol(s, "roundtrip-mismatch", "variables", "the problem has %d variables, the printed header says %d", n, d.NbVars)
				return
			}
			if !sameModels(rec, s, "own reader", n, orig, min(d.NbVars, n), dp.Holds, text) {
				return
			}
			var pb2 *solver.Problem
			if rec.Guard(s+"/reparse", func() { pb2, err = solver.ParseCNF(strings.NewReader(text)) }) {
				return
			}
			if err != nil {
				rec.Viol(s, "roundtrip-mismatch", "reparse", "ParseCNF rejects the printed text: %v\n%s", err, text)
				return
			}
			if !sameModels(rec, s, "ParseCNF", n, orig, min(pb2.NbVars, n), func(a uint32) bool { return EvalSolverProblem(pb2, a) }, text) {
				return
			}
		}
		var text string
		s := scen + "+Problem.PBString"
		if rec.Guard(s, func() { text = pb.PBString() }) {
			return
		}
		checkOPBText(rec, s, text, n, orig, p, hasCost)
		rec.Interesting(scen + text)
	case "solver":
		scenBase := map[string]string{"cnf": "ParseSliceNb", "card": "ParseCardConstrs", "pb": "ParsePBConstrs", "opb": "ParseOPB"}[c.Front]
		pb := c18Build(c, rec, scenBase)
		if pb == nil {
			return
		}
		hasCost := pb.Optim()
		var s *solver.Solver
		if rec.Guard(scenBase+"/New", func() { s = solver.New(pb) }) {
			return
		}
		cur := p.Clone()
		n := max(cur.N, cur.MaxVar())
		cur.N = n
		printNow := func(when string) bool {
			scen := scenBase + "+Solver.PBString/" + when
			var text string
			if rec.Guard(scen, func() { text = s.PBString() }) {
				return false
			}
			if n > 12 {
				return false
			}
			checkOPBText(rec, scen, text, n, cur.Holds, cur, hasCost)
			rec.Count("solver_prints", 1)
			return true
		}
		if !printNow("fresh") {
			return
		}
		for _, op := range c.Ops {
			if op.Kind == "add" {
				if mv := op.C.MaxVar(); mv > n {
					n = mv
				}
				cur.Cons = append(cur.Cons, op.C.Clone())
				cur.N = n
				if rec.Guard(scenBase+"/add", func() {
					for _, cl := range addedClauses(op) {
						s.AppendClause(cl)
					}
				}) {
					return
				}
				if !printNow("after-add") {
					return
				}
				continue
			}
			if rec.Guard(scenBase+"/Solve", func() { s.Solve() }) {
				return
			}
			if !printNow("after-solve") {
				return
			}
		}
		rec.Interesting(JS(c.P) + JS(c.Ops))
	}
}

func init() {
	register(&Prop{
		ID:       "C18",
		NumCases: func(tier string) int { return c18Counts[tier] },
		Gen:      c18Gen,
		New:      func() interface{} { return &C18Case{} },
		Run:      c18Run,
		Setup:    func(string) { InstallSeqHooks() },
		Rule: "random problems over 1..9 variables built by ParseSlice, ParseSliceNb, ParseCNF, ParseCardConstrs, ParsePBConstrs (+SetCostFunc) and ParseOPB (cost functions with nil, zero, positive and - for OPB - negative weights), including problems whose status is already Sat or Unsat after parsing; Problem.CNF() (CNF problems), Problem.PBString(), Solver.PBString() (fresh, after each AppendClause and each Solve of a generated history) and explain.Problem.CNF(). Each text must be read by the harness's own strict DIMACS / OPB reader with the same models (and cost per model) as the problem object evaluated through its public accessors, and gophersat's own parser must read it back to a problem with the same models, the same presence of a cost function and the same optimum. " +
			"non-trivial = all renderings of the case were produced and compared; distinct by problem and history",
		Assumptions: []string{
			"reference DIMACS and OPB readers and truth table of internal/ref",
			"OPB has no variable count field that is read back: trailing variables no printed constraint mentions are free on the re-read side",
			"the solver's rendering is compared with base AND added constraints (the reference of C09); learned clauses it prints are consequences and do not change the models",
		},
		Floors: map[string]map[string]int64{
			"quick":    {"opb_texts": 20000, "dimacs_texts": 5000, "solver_prints": 10000, "cost_functions_compared": 3000, "unsat_status_problems": 500},
			"thorough": {"opb_texts": 400000, "dimacs_texts": 100000, "solver_prints": 200000, "cost_functions_compared": 60000, "unsat_status_problems": 10000},
		},
	})
}
