package props

import (
	"fmt"
	"runtime"
	"sync"
	"sync/atomic"
	"unsafe"

	"github.com/crillab/gophersat/solver"

	"verif/internal/gen"
)

// C16 — independent solver instances do not interfere; calls are race free.

// TaskSpec names one data-independent task: a case of another property's scenario.
type TaskSpec struct {
	Prop string `json:"prop"`
	Idx  int    `json:"idx"`
	Seed uint64 `json:"seed"`
}

// C16Case is a batch of tasks run alone and then all at the same time.
type C16Case struct {
	Tasks   []TaskSpec `json:"tasks"`
	Procs   int        `json:"procs"`
	SendPct uint32     `json:"sendPct"`
	StepPct uint32     `json:"stepPct"`
	Seed    uint64     `json:"seed"`
	Lanes   int        `json:"lanes,omitempty"` // goroutines of the concurrent phase (0: one per task); tasks are dealt round-robin
	Focus   string     `json:"focus,omitempty"` // package family all the tasks come from, if any
	// ConcFirst: the concurrent phase runs before the alone phase, so that state initialised lazily on first use
	// (package-level tables, caches) is first touched by several goroutines at once; the first case of each
	// worker process is then a cold start.
	ConcFirst bool `json:"concFirst,omitempty"`
}

var c16Counts = map[string]int{"quick": 400, "thorough": 10_000}

// task kinds and their weights; C01big are 30..70 variable instances with many conflicts
var c16Kinds = []string{"C01big", "C01big", "C01big", "C01tt", "C02", "C03", "C04", "C04", "C05", "C06", "C06", "C07", "C07", "C08", "C09", "C10", "C11", "C12", "C13", "C14", "C14", "C15", "C17", "C18"}

// c16Families: name, then the task kinds of a focused batch
var c16Families = [][]string{
	{"explain", "C07", "C07", "C08"},
	{"maxsat", "C04"},
	{"bf", "C11", "C12", "C17"},
	{"pb-and-detection", "C14", "C15", "C02", "C03"},
	{"counting", "C05", "C10", "C09"},
}

func c16Gen(r *gen.Rng, tier string, idx int) interface{} {
	c := &C16Case{Procs: []int{2, 16, 16}[r.Intn(3)], Seed: r.U64()}
	c.SendPct = []uint32{0, 128, 255}[r.Intn(3)]
	c.StepPct = []uint32{0, 500, 5000}[r.Intn(3)]
	k := []int{2, 4, 8, 16}[r.Intn(4)]
	kinds := c16Kinds
	if r.Chance(1, 4) {
		// focused batch: every lane runs several tasks in a row, all from scenarios that go through the same
		// package-level code (anything shared there is hit by all lanes during the whole batch)
		f := c16Families[r.Intn(len(c16Families))]
		c.Focus, kinds = f[0], f[1:]
		c.Lanes = []int{4, 8}[r.Intn(2)]
		k = c.Lanes * r.Range(3, 5)
	}
	for i := 0; i < k; i++ {
		kind := kinds[r.Intn(len(kinds))]
		t := TaskSpec{Seed: r.U64()}
		switch kind {
		case "C01big":
			t.Prop = "C01"
			t.Idx = c01ExhTotal("quick") + c01Counts["quick"][1] + r.Intn(400)
		case "C01tt":
			t.Prop = "C01"
			t.Idx = c01ExhTotal("quick") + r.Intn(1000)
		case "C06":
			t.Prop = "C06"
			t.Idx = c06Counts["quick"][0]*r.Intn(2) + r.Intn(100)
		case "C17":
			t.Prop = kind
			t.Idx = c17ExhTotal("quick") + r.Intn(1000)
		default:
			t.Prop = kind
			t.Idx = r.Intn(1000)
		}
		c.Tasks = append(c.Tasks, t)
	}
	c.ConcFirst = r.Bool()
	return c
}

// interleaving evidence: alternations between different solvers at conflict-analysis steps
var c16 struct {
	lastSolver   uintptr
	alternations uint64
	running      int32
	maxRunning   int32
}

func c16OnStep(s *solver.Solver, point string) {
	if point != "learnClause" && point != "cuttingPlanes" {
		return
	}
	p := uintptr(unsafe.Pointer(s))
	if old := atomic.SwapUintptr(&c16.lastSolver, p); old != p && old != 0 {
		atomic.AddUint64(&c16.alternations, 1)
	}
}

func runTask(t TaskSpec, tier string) *Rec {
	p := Registry[t.Prop]
	rec := NewRec(tier)
	c := p.Gen(gen.New(t.Seed), "quick", t.Idx)
	rec.Guard("task", func() { p.Run(c, rec) })
	return rec
}

func c16Run(ci interface{}, rec *Rec) {
	c := ci.(*C16Case)
	old := runtime.GOMAXPROCS(c.Procs)
	defer runtime.GOMAXPROCS(old)
	aloneBad := map[int]bool{}
	alone := func() {
		// phase 1: every task alone
		SetSchedule(0, 0, 0)
		for i, t := range c.Tasks {
			r := runTask(t, rec.Tier)
			for _, v := range r.Viols {
				aloneBad[i] = true
				rec.Viol("alone/"+t.Prop+"/"+v.Scenario, v.Kind, v.Site, "task #%d (%s idx %d) run alone: %s", i, t.Prop, t.Idx, v.Detail)
			}
			rec.Count("task_runs_alone", 1)
		}
	}
	recs := make([]*Rec, len(c.Tasks))
	alt, maxRunning := 0, 0
	together := func() {
		// phase 2: all tasks at the same time, released together
		SetSchedule(c.Seed, c.SendPct, c.StepPct)
		atomic.StoreUint64(&c16.alternations, 0)
		atomic.StoreUintptr(&c16.lastSolver, 0)
		atomic.StoreInt32(&c16.maxRunning, 0)
		start := make(chan struct{})
		lanes := c.Lanes
		if lanes <= 0 || lanes > len(c.Tasks) {
			lanes = len(c.Tasks)
		}
		var wg sync.WaitGroup
		for lane := 0; lane < lanes; lane++ {
			wg.Add(1)
			go func(lane int) {
				defer wg.Done()
				<-start
				n := atomic.AddInt32(&c16.running, 1)
				for {
					m := atomic.LoadInt32(&c16.maxRunning)
					if n <= m || atomic.CompareAndSwapInt32(&c16.maxRunning, m, n) {
						break
					}
				}
				for i := lane; i < len(c.Tasks); i += lanes {
					recs[i] = runTask(c.Tasks[i], rec.Tier)
				}
				atomic.AddInt32(&c16.running, -1)
			}(lane)
		}
		close(start)
		wg.Wait()
		SetSchedule(0, 0, 0)
		alt = int(atomic.LoadUint64(&c16.alternations))
		maxRunning = int(atomic.LoadInt32(&c16.maxRunning))
	}
	if c.ConcFirst {
		rec.Count("batches_concurrent_phase_first", 1)
		together()
		alone()
	} else {
		alone()
		together()
	}
	for i, r := range recs {
		t := c.Tasks[i]
		rec.Count("task_runs_concurrent", 1)
		rec.Count("concurrent_"+t.Prop, 1)
		for _, v := range r.Viols {
			kind := v.Kind
			if !aloneBad[i] {
				kind = "interference(" + v.Kind + ")"
			}
			rec.Viol(fmt.Sprintf("concurrent/%s/%s", t.Prop, v.Scenario), kind, v.Site, "task #%d (%s idx %d) among %d concurrent tasks (it was clean when run alone = %v): %s", i, t.Prop, t.Idx, len(c.Tasks), !aloneBad[i], v.Detail)
		}
	}
	rec.Count("learn_step_alternations", alt)
	rec.Max("max_tasks_running_at_once", maxRunning)
	rec.Count("schedule_perturbations", ScheduleHits())
	rec.Count("batches", 1)
	if c.Focus != "" {
		rec.Count("batches_focused_"+c.Focus, 1)
	} else {
		rec.Count(fmt.Sprintf("batches_k%d", len(c.Tasks)), 1)
	}
	if alt > 0 {
		rec.Count("batches_with_interleaved_conflict_analysis", 1)
		rec.Interesting(JS(c))
		rec.Sample = map[string]interface{}{"batch": c, "alternations_between_solvers_at_conflict_analysis_steps": alt, "max_tasks_running_at_once": maxRunning}
	}
}

func init() {
	register(&Prop{
		ID:       "C16",
		Race:     true,
		Procs:    16,
		NumCases: func(tier string) int { return c16Counts[tier] },
		Gen:      c16Gen,
		New:      func() interface{} { return &C16Case{} },
		Run:      c16Run,
		Setup: func(string) {
			ConcurrentMode = true
			InstallConcurrentHooks()
			solver.VerifHooks.OnStep = c16OnStep
		},
		Rule: "batches of k in {2,4,8,16} data-independent tasks drawn from the scenarios of C01 (30..70 variable instances with hundreds of conflicts, and truth-table sized ones), C02..C15, C17, C18 (Solve with and without the cutting-planes strategy, Optimal with and without result channel, Minimize, Enumerate, CountModels, Assume rounds, maxsat API and WCNF, UnsatSubset and the four MUS methods, Unsat/UnsatChan, bf.Solve, bf.Dimacs, the parsers and printers), Verbose off. Each task is first run alone, then all tasks of the batch are released together in their own goroutines (GOMAXPROCS 2 or 16, optional Gosched/spin perturbation at hand-over and search-step points); every task is judged by its own reference oracle in both phases; the worker is built with -race and every report of the race detector that involves a gophersat frame is a violation (de-duplicated by accessing functions and outermost library entry points). " +
			"non-trivial = batch in which conflict-analysis steps of different solvers alternated (counted by the per-step hook); distinct by batch",
		Assumptions: []string{
			"the reference oracles of the reused scenarios",
			"schedules are explored, not exhausted; the evidence reports the number of alternations between solvers at conflict-analysis steps, the maximum number of tasks running at once and the perturbations applied",
			"race reports that only involve harness frames are counted separately and are not attributed to gophersat",
		},
		Floors: map[string]map[string]int64{
			"quick":    {"batches_with_interleaved_conflict_analysis": 10, "learn_step_alternations": 100, "task_runs_concurrent": 1500},
			"thorough": {"batches_with_interleaved_conflict_analysis": 250, "learn_step_alternations": 2500, "task_runs_concurrent": 30000},
		},
	})
}
