package props

import (
	"fmt"
	"strings"

	"github.com/crillab/gophersat/solver"

	"verif/internal/gen"
	"verif/internal/ref"
)

// C06 — every Unsat answer on CNF comes with a valid RUP refutation.

// C06Case is a CNF solved with certificate generation on and off.
type C06Case struct {
	N     int     `json:"n"`
	CNF   [][]int `json:"cnf"`
	Front string  `json:"front"`
	Limit int     `json:"limit"`
}

var c06Counts = map[string][2]int{"quick": {30_000, 1_500}, "thorough": {700_000, 40_000}}

func c06Gen(r *gen.Rng, tier string, idx int) interface{} {
	c := &C06Case{Front: []string{"slice", "slicenb", "dimacs"}[r.Intn(3)]}
	c.Limit = []int{0, 0, 3, 20}[r.Intn(4)]
	if idx < c06Counts[tier][0] {
		if r.Chance(1, 2) {
			c.N = r.Range(6, 14)
			c.CNF = gen.Random3SAT(r, c.N, 3, r.Range(400, 600))
			if r.Chance(1, 3) { // units and duplicates as written by the user
				c.CNF = append(c.CNF, []int{r.Lit(c.N)}, []int{r.Lit(c.N), r.Lit(c.N), r.Lit(c.N)})
				p := r.Perm(len(c.CNF))
				c2 := make([][]int, len(c.CNF))
				for i, j := range p {
					c2[i] = c.CNF[j]
				}
				c.CNF = c2
			}
		} else {
			c.CNF, c.N = gen.RandomCNF(r, gen.CNFOpts{MinVars: 2, MaxVars: 14, MaxLen: 5, Weird: true})
		}
		return c
	}
	c.N = r.Range(30, 70)
	if r.Chance(1, 8) {
		p := r.Range(4, 6)
		c.CNF, c.N = gen.Pigeonhole(p+1, p)
	} else if r.Chance(1, 8) { // wide nested clauses: learned clauses of up to 160 literals
		c.CNF, c.N = gen.Ladder(r, r.Range(10, 160))
	} else {
		c.CNF = gen.Random3SAT(r, c.N, 3, r.Range(400, 480))
	}
	c.Limit = []int{0, 3, 20, 50}[r.Intn(4)]
	return c
}

func c06Run(ci interface{}, rec *Rec) {
	c := ci.(*C06Case)
	n := c.N
	if mv := MaxVarCNF(c.CNF); mv > n {
		n = mv
	}
	small := n <= 16
	var refP *ref.Problem
	if small {
		refP = ref.CNFToProblem(c.CNF, n)
	}
	scen := fmt.Sprintf("%s+Solve/cert=chan/limit=%d", c.Front, c.Limit)
	SetLearnedLimit(c.Limit, c.Limit > 0)
	cc := &C01Case{N: c.N, CNF: c.CNF}
	pb, _ := c01Build(cc, c.Front, c.CNF, c.N, rec, scen)
	if pb == nil {
		return
	}
	var s *solver.Solver
	var st solver.Status
	var lines []string
	if rec.Guard(scen, func() {
		s = solver.New(pb)
		s.Certified = true
		s.CertChan = make(chan string, 16)
		done := make(chan struct{})
		go func() {
			for l := range s.CertChan {
				lines = append(lines, l)
			}
			close(done)
		}()
		defer func() { close(s.CertChan); <-done }()
		st = s.Solve()
	}) {
		return
	}
	rec.Count("certified_solves", 1)
	rec.Max("max_steps_in_one_solve", int(s.VerifSteps()))
	rec.Count("cert_lines", len(lines))
	for _, l := range lines {
		rec.Max("max_certificate_line_literals", len(strings.Fields(l))-1)
	}
	rec.Count("conflicts", s.Stats.NbConflicts)
	rec.Count("deleted", s.Stats.NbDeleted)
	rec.Count("restarts", s.Stats.NbRestarts)
	if st != solver.Sat && st != solver.Unsat {
		rec.Viol(scen, "wrong-verdict", "Indet", "Solve answered %s", StatusName(st))
		return
	}
	// replay against the clauses as the user wrote them
	chk := ref.NewRUP(c.CNF, n)
	emptySeen := false
	for i, l := range lines {
		if f := strings.Fields(l); len(f) == 0 || !isIntToken(f[0]) {
			rec.Count("non_clause_lines_ignored", 1) // comment-like lines are ignored, as certificate checkers do
			continue
		}
		cl, ok := parseCertLine(l)
		if !ok {
			rec.Viol(scen, "not-rup", "malformed-line", "certificate line #%d %q is not a clause line", i, l)
			return
		}
		if chk.Check(cl) {
			rec.Count("lines_rup", 1)
		} else {
			// not derivable by unit propagation
			if st == solver.Unsat {
				rec.Viol(scen, "not-rup", "line", "Unsat answer, but certificate line #%d %v does not follow by unit propagation from the formula and the earlier lines", i, cl)
				return
			}
			var consequence, decided bool
			if small {
				consequence, decided = refP.Implies(n, ref.Cl(cl...)), true
			} else {
				neg := make([]int, len(cl))
				for j, x := range cl {
					neg[j] = -x
				}
				sat, _, ok := ref.DPLL(c.CNF, n, neg, oracleBudget(20_000_000))
				consequence, decided = !sat, ok
			}
			if !decided {
				rec.Inconclusive("consequence of a non-RUP line undecided (n=%d)", n)
			} else if !consequence {
				rec.Viol(scen, "non-consequence", "line", "certificate line #%d %v is not a logical consequence of the formula", i, cl)
				return
			} else {
				rec.Count("lines_consequence_not_rup", 1)
			}
		}
		if small && len(lines) < 40 { // cross-check of the independent checker itself
			if !refP.Implies(n, ref.Cl(cl...)) {
				rec.Viol(scen, "non-consequence", "line", "certificate line #%d %v is not a logical consequence of the formula (truth table)", i, cl)
				return
			}
			rec.Count("lines_tt_checked", 1)
		}
		if len(cl) == 0 {
			emptySeen = true
		}
		chk.Add(cl)
	}
	if st == solver.Unsat {
		rec.Count("unsat_answers", 1)
		if !emptySeen && !chk.Check(nil) {
			rec.Viol(scen, "not-rup", "no-empty-clause", "Unsat answer, but the empty clause is neither emitted nor derivable by unit propagation after the %d emitted lines", len(lines))
		}
		if small && refP.Sat(n) {
			rec.Viol(scen, "wrong-verdict", "Unsat-for-sat", "Unsat answered on a satisfiable formula")
		}
		if len(lines) >= 3 {
			rec.Interesting(CanonCNF(c.CNF, c.N))
		}
	} else {
		rec.Count("sat_answers", 1)
		if emptySeen {
			rec.Viol(scen, "non-consequence", "line", "Sat answer but the empty clause was emitted")
		}
		model := s.Model()
		if i := ref.FirstFalsified(c.CNF, model); i >= 0 {
			rec.Viol(scen, "bad-model", "Model", "certified run: model falsifies clause #%d %v", i, c.CNF[i])
		}
		if len(lines) >= 3 {
			rec.Interesting(CanonCNF(c.CNF, c.N))
		}
	}
	// the same input without certification
	scen2 := fmt.Sprintf("%s+Solve/cert=off/limit=%d", c.Front, c.Limit)
	pb2, _ := c01Build(cc, c.Front, c.CNF, c.N, rec, scen2)
	if pb2 == nil {
		return
	}
	var st2 solver.Status
	var s2 *solver.Solver
	if rec.Guard(scen2, func() {
		s2 = solver.New(pb2)
		st2 = s2.Solve()
	}) {
		return
	}
	if st2 != st {
		rec.Viol(scen2, "wrong-verdict", "cert-changes-verdict", "verdict %s with certification, %s without", StatusName(st), StatusName(st2))
	}
	if st2 == solver.Sat {
		if i := ref.FirstFalsified(c.CNF, s2.Model()); i >= 0 {
			rec.Viol(scen2, "bad-model", "Model", "uncertified run: model falsifies clause #%d %v", i, c.CNF[i])
		}
	}
}

func init() {
	register(&Prop{
		ID:       "C06",
		NumCases: func(tier string) int { c := c06Counts[tier]; return c[0] + c[1] },
		Gen:      c06Gen,
		New:      func() interface{} { return &C06Case{} },
		Run:      c06Run,
		Setup:    func(string) { InstallSeqHooks() },
		Rule: "random CNF on 2..14 variables (3-SAT at ratio 4.0-6.0 with user-written units and duplicate literals, mixed shapes) and on 30..70 variables (3-SAT near the threshold, pigeonhole), through ParseSlice / ParseSliceNb / ParseCNF, learned limit default / 3 (sticky) / 20 / 50; the lines received on CertChan are replayed in order by the independent RUP checker against the clauses as written; non-RUP lines on Sat answers are decided by truth table / DPLL; small certificates are also checked line by line by truth table; then the same input is solved with certification off. " +
			"non-trivial = the certificate has >= 3 lines; distinct by (n, clause list)",
		Assumptions: []string{
			"reference RUP checker, truth table and DPLL of internal/ref",
			"an Unsat answer with no emitted line (conflict found at parse time) is accepted iff the empty clause is RUP w.r.t. the original clauses",
		},
		Floors: map[string]map[string]int64{
			"quick":    {"cert_lines": 100000, "unsat_answers": 3000, "sat_answers": 3000},
			"thorough": {"cert_lines": 5000000, "unsat_answers": 75000, "sat_answers": 75000},
		},
	})
}

func isIntToken(t string) bool {
	if t == "" {
		return false
	}
	for i, c := range t {
		if !(c >= '0' && c <= '9') && !(i == 0 && (c == '-' || c == '+') && len(t) > 1) {
			return false
		}
	}
	return true
}
