package props

import (
	"runtime"
	"strings"
	"sync/atomic"

	"github.com/crillab/gophersat/solver"

	"verif/internal/gen"
)

// Schedule perturbation shared by the concurrent scenarios (C16, C20): the verifDelay / verifStep hook
// points call delayHook, which yields or spins for a PRNG-chosen number of iterations. No timer is used,
// so that a genuine deadlock is still reported by the Go runtime ("all goroutines are asleep").

var sched struct {
	seed    uint64
	ctr     uint64
	sendPct uint32 // probability (in 1/256) of perturbing a send / hand-over point
	stepPct uint32 // probability (in 1/65536) of yielding at a search step
	hits    uint64
}

var spinSink uint64

// Spin burns roughly n short iterations without blocking.
func Spin(n int) {
	x := uint64(n)
	for i := 0; i < n; i++ {
		x = x*6364136223846793005 + 1442695040888963407
	}
	atomic.AddUint64(&spinSink, x)
}

func delayHook(point string) {
	sp := atomic.LoadUint32(&sched.sendPct)
	st := atomic.LoadUint32(&sched.stepPct)
	if sp == 0 && st == 0 {
		return
	}
	h := gen.Mix(atomic.LoadUint64(&sched.seed), atomic.AddUint64(&sched.ctr, 1))
	if strings.Contains(point, ".send") || strings.HasPrefix(point, "maxsat.") || strings.HasPrefix(point, "UnsatSubset") {
		if uint32(h&255) < sp {
			atomic.AddUint64(&sched.hits, 1)
			switch (h >> 8) % 3 {
			case 0:
				runtime.Gosched()
			case 1:
				Spin(int((h >> 16) % 2000))
			default:
				for i := 0; i < int((h>>16)%4)+1; i++ {
					runtime.Gosched()
				}
			}
		}
		return
	}
	if uint32(h&65535) < st {
		atomic.AddUint64(&sched.hits, 1)
		runtime.Gosched()
	}
}

// SetSchedule configures the perturbation for the next case.
func SetSchedule(seed uint64, sendPct, stepPct uint32) {
	atomic.StoreUint64(&sched.seed, seed)
	atomic.StoreUint32(&sched.sendPct, sendPct)
	atomic.StoreUint32(&sched.stepPct, stepPct)
}

// ScheduleHits returns and resets the number of perturbations applied.
func ScheduleHits() int { return int(atomic.SwapUint64(&sched.hits, 0)) }

// InstallConcurrentHooks installs the hooks for the concurrent scenarios: a step budget, the delay hook,
// and nothing that keeps per-case state (cases run in parallel in C16).
func InstallConcurrentHooks() {
	solver.VerifHooks.StepBudget = DefaultStepBudget
	solver.VerifHooks.GlobalBudget = 0
	solver.VerifHooks.Delay = delayHook
}
