package props

import (
	"bytes"
	"fmt"
	"os"
	"os/exec"
	"path/filepath"
	"strconv"
	"strings"

	"verif/internal/gen"
	"verif/internal/ref"
)

// C19 — what the command line tool prints is true.

// C19Case is a file given to the gophersat binary with some flags.
type C19Case struct {
	Kind     string       `json:"kind"` // cnf | opb | wcnf | bf | missing | badsuffix | malformed
	Ext      string       `json:"ext"`
	Flags    []string     `json:"flags"`
	Content  string       `json:"content"`
	N        int          `json:"n,omitempty"`
	CNF      [][]int      `json:"cnf,omitempty"`
	P        *ref.Problem `json:"p,omitempty"`
	M        *gen.MaxSat  `json:"m,omitempty"`
	Declared int          `json:"declared,omitempty"`
	F        *ref.F       `json:"f,omitempty"`
}

var c19Counts = map[string]int{"quick": 1_500, "thorough": 40_000}

func c19Gen(r *gen.Rng, tier string, idx int) interface{} {
	c := &C19Case{}
	switch k := r.Intn(20); {
	case k < 9:
		c.Kind, c.Ext = "cnf", ".cnf"
		switch r.Intn(3) {
		case 0:
			c.CNF, c.N = gen.RandomMUSInput(r, 8, 24)
		case 1:
			c.N = r.Range(4, 11)
			c.CNF = gen.Random3SAT(r, c.N, 3, r.Range(300, 600))
		default:
			c.CNF, c.N = gen.RandomCNF(r, gen.CNFOpts{MinVars: 1, MaxVars: 10, MaxLen: 4, Weird: true})
		}
		var c2 [][]int
		for _, cl := range c.CNF {
			if len(cl) > 0 {
				c2 = append(c2, cl)
			}
		}
		c.CNF = c2
		if mv := MaxVarCNF(c.CNF); mv > c.N {
			c.N = mv
		}
		if r.Chance(1, 12) { // degenerate files: no clause at all, over zero or a few declared variables
			c.CNF, c.N = nil, []int{0, 0, 1, 3}[r.Intn(4)]
		}
		c.Flags = [][]string{nil, nil, {"-count"}, {"-certified"}, {"-mus"}, {"-mus"}, {"-cp"}, {"-verbose"}, {"-certified", "-verbose"}, {"-cp", "-verbose"}}[r.Intn(10)]
		if len(c.Flags) > 0 && c.Flags[0] == "-mus" {
			c.Content = gen.DimacsLineLayout(r, c.CNF, c.N)
		} else {
			c.Content = gen.DimacsLayout(r, c.CNF, c.N)
		}
	case k < 13:
		c.Kind, c.Ext = "opb", ".opb"
		c.P = gen.RandomPBProblem(r, gen.PBOpts{MinVars: 2, MaxVars: 9, MaxW: r.Range(1, 4), NegCoefs: true, MaxCons: 6, Hard: r.Chance(1, 4)})
		if len(c.P.Cons) == 0 {
			c.P.Cons = append(c.P.Cons, ref.Cl(1))
		}
		c.P.N = max(c.P.MaxVar(), 1)
		if r.Chance(3, 4) {
			c.P.HasCost = true
			c.P.CostLits, c.P.CostW = gen.RandomCost(r, c.P.N, 5, r.Chance(1, 2), false) // negative coefficients: the optimum can be below 0
		}
		c.P.N = max(c.P.MaxVar(), 1)
		c.Flags = [][]string{nil, nil, {"-cp"}, {"-verbose"}, {"-count"}}[r.Intn(5)]
		c.Content = gen.OPBLayout(r, c.P)
	case k < 16:
		c.Kind, c.Ext = "wcnf", ".wcnf"
		c.M = gen.RandomMaxSat(r, 8, true)
		c.Declared = max(c.M.MaxVar(), 1)
		if r.Chance(1, 3) {
			c.Declared += r.Range(1, 2)
		}
		c.Flags = [][]string{nil, nil, {"-verbose"}}[r.Intn(3)]
		c.Content = gen.WCNFLayout(r, c.M, c.Declared, len(c.M.Hard) > 0 || r.Bool())
	case k < 18:
		c.Kind, c.Ext = "bf", ".bf"
		o := gen.FormulaOpts{MaxDepth: r.Range(1, 4), NbVars: r.Range(1, 6), TextOnly: true, Seq: r.Chance(1, 3), NegUniq: true, MaxGroup: r.Intn(6)}
		c.F = gen.RandomFormula(r, o, 0, false)
		c.Content = gen.JoinTokens(r, gen.RenderTokens(r, c.F, r.Intn(3)), r.Intn(3))
	case k == 18:
		c.Kind = "missing"
		c.Ext = []string{".cnf", ".opb", ".wcnf", ".bf"}[r.Intn(4)]
		c.Flags = [][]string{nil, {"-mus"}, {"-count"}}[r.Intn(3)]
	default:
		if r.Bool() {
			c.Kind = "badsuffix"
			c.Ext = []string{".txt", ".cnf2", "", ".sat"}[r.Intn(4)]
			c.Content = "p cnf 1 1\n1 0\n"
		} else {
			c.Kind = "malformed"
			switch r.Intn(4) {
			case 0:
				c.Ext, c.Content = ".cnf", "p cnf 3 2\n1 a 0\n2 3 0\n"
			case 1:
				c.Ext, c.Content = ".opb", "+1 x1 +2 x2 >= 2\n"
			case 2:
				c.Ext, c.Content = ".wcnf", "p wcnf 2 1\n3 x 1 0\n"
			default:
				c.Ext, c.Content = ".bf", "a & & b"
			}
			if c.Ext == ".cnf" && r.Bool() {
				c.Flags = []string{"-mus"}
				c.Content = "p cnf 3 2\n1 a 0\n"
			}
		}
	}
	return c
}

var cliScratch string
var cliSeq int

func cliDir() string {
	if cliScratch == "" {
		base := os.Getenv("VERIF_SCRATCH")
		if base == "" {
			base = filepath.Join(os.TempDir(), "verif-cli")
		}
		cliScratch = filepath.Join(base, fmt.Sprintf("cli-%d", os.Getpid()))
		os.MkdirAll(cliScratch, 0o755)
	}
	return cliScratch
}

type cliOut struct {
	stdout, stderr string
	exit           int
	lines          []string
}

func runCLI(c *C19Case) (*cliOut, error) {
	bin := os.Getenv("VERIF_CLI")
	if bin == "" {
		return nil, fmt.Errorf("VERIF_CLI is not set")
	}
	cliSeq++
	path := filepath.Join(cliDir(), fmt.Sprintf("f%d%s", cliSeq, c.Ext))
	if c.Kind != "missing" {
		if err := os.WriteFile(path, []byte(c.Content), 0o644); err != nil {
			return nil, err
		}
		defer os.Remove(path)
	}
	args := append(append([]string{}, c.Flags...), path)
	cmd := exec.Command(bin, args...)
	var so, se bytes.Buffer
	cmd.Stdout, cmd.Stderr = &so, &se
	cmd.Env = append(os.Environ(), "VERIF_STEP_BUDGET=3000000", "GOMAXPROCS=2")
	err := cmd.Run()
	out := &cliOut{stdout: so.String(), stderr: se.String()}
	if err != nil {
		if ee, ok := err.(*exec.ExitError); ok {
			out.exit = ee.ExitCode()
		} else {
			return nil, err
		}
	}
	for _, l := range strings.Split(out.stdout, "\n") {
		out.lines = append(out.lines, strings.TrimRight(l, " \r"))
	}
	return out, nil
}

// vValues returns the values of the 'v' lines, in order, without the line prefixes.
func vValues(vLines []string) []string {
	var f []string
	for _, l := range vLines {
		f = append(f, strings.Fields(l)[1:]...)
	}
	return f
}

func hasFlag(c *C19Case, f string) bool {
	for _, x := range c.Flags {
		if x == f {
			return true
		}
	}
	return false
}

func c19Run(ci interface{}, rec *Rec) {
	c := ci.(*C19Case)
	scen := "gophersat " + strings.Join(append(append([]string{}, c.Flags...), "file"+c.Ext), " ")
	out, err := runCLI(c)
	if err != nil {
		rec.Inconclusive("cannot run the binary: %v", err)
		return
	}
	rec.Count("runs", 1)
	rec.Count("runs_"+c.Kind, 1)
	var sLines, vLines, oLines, other []string
	for _, l := range out.lines {
		switch {
		case l == "":
		case strings.HasPrefix(l, "c ") || l == "c":
		case strings.HasPrefix(l, "s "):
			sLines = append(sLines, l)
		case strings.HasPrefix(l, "v ") || l == "v":
			vLines = append(vLines, l)
		case strings.HasPrefix(l, "o "):
			oLines = append(oLines, l)
		default:
			other = append(other, l)
		}
	}
	crashed := strings.Contains(out.stderr, "panic:") || strings.Contains(out.stderr, "fatal error:") || strings.Contains(out.stderr, "goroutine ")
	if crashed {
		kind, site := "panic", SiteFromStack(out.stderr)
		if i := strings.Index(out.stderr, BudgetMsg); i >= 0 {
			kind, site = "step-budget", strings.TrimSpace(strings.SplitN(out.stderr[i+len(BudgetMsg):], "\n", 2)[0])
		} else if j := strings.Index(out.stderr, "panic: "); j >= 0 {
			site += ": " + MsgClass(strings.SplitN(out.stderr[j+7:], "\n", 2)[0])
		}
		rec.Viol(scen, "cli("+kind+")", site, "the binary crashed (exit %d):\n%s", out.exit, trimStack(out.stderr))
		return
	}
	switch c.Kind {
	case "missing", "badsuffix", "malformed":
		if out.exit == 0 {
			rec.Viol(scen, "cli(exit-status)", c.Kind, "%s file but exit status 0; stdout:\n%s", c.Kind, out.stdout)
		}
		if len(sLines) > 0 || contains(other, "SATISFIABLE") || contains(other, "UNSATISFIABLE") {
			rec.Viol(scen, "cli(answer-on-bad-file)", c.Kind, "%s file but an answer line was printed:\n%s", c.Kind, out.stdout)
		}
		rec.Interesting(scen + c.Content)
		return
	}
	// well-formed files
	switch {
	case c.Kind == "cnf" && hasFlag(c, "-mus"):
		c19CheckMUS(c, rec, scen, out, other)
	case (c.Kind == "cnf" || c.Kind == "opb") && hasFlag(c, "-count"):
		if out.exit != 0 {
			rec.Viol(scen, "cli(exit-status)", "well-formed", "well-formed file but exit status %d; stderr: %s", out.exit, out.stderr)
			return
		}
		var p *ref.Problem
		n := c.N
		if c.Kind == "cnf" {
			p = ref.CNFToProblem(c.CNF, c.N)
		} else {
			p, n = c.P, c.P.N
		}
		want := p.Count(n)
		if len(other) != 1 {
			rec.Viol(scen, "cli(count)", "format", "expected one line holding the count, got %q", other)
			return
		}
		got, err := strconv.Atoi(strings.TrimSpace(other[0]))
		if err != nil || got != want {
			rec.Viol(scen, "cli(count)", "value", "printed count %q, the file has %d models over %d variables", other[0], want, n)
		}
	case c.Kind == "cnf":
		c19CheckDecision(c, rec, scen, out, sLines, vLines, other)
	case c.Kind == "opb" || c.Kind == "wcnf":
		c19CheckOptim(c, rec, scen, out, sLines, vLines, oLines)
	case c.Kind == "bf":
		c19CheckBF(c, rec, scen, out, other)
	}
	rec.Interesting(scen + c.Content)
}

func contains(l []string, s string) bool {
	for _, x := range l {
		if x == s {
			return true
		}
	}
	return false
}

func c19CheckDecision(c *C19Case, rec *Rec, scen string, out *cliOut, sLines, vLines, other []string) {
	if out.exit != 0 {
		rec.Viol(scen, "cli(exit-status)", "well-formed", "well-formed file but exit status %d; stderr: %s", out.exit, out.stderr)
		return
	}
	if len(sLines) != 1 {
		rec.Viol(scen, "cli(s-line)", "count", "expected exactly one 's' line, got %q", sLines)
		return
	}
	p := ref.CNFToProblem(c.CNF, c.N)
	sat := p.Sat(c.N)
	switch sLines[0] {
	case "s SATISFIABLE":
		if !sat {
			rec.Viol(scen, "cli(wrong-verdict)", "Sat-for-unsat", "'s SATISFIABLE' printed for an unsatisfiable file")
			return
		}
		if len(vLines) == 0 {
			rec.Viol(scen, "cli(v-line)", "count", "'s SATISFIABLE' without any 'v' line")
			return
		}
		// the conventions allow the values to be spread over several 'v' lines, in any order, the last value being 0
		f := vValues(vLines)
		if len(f) == 0 || f[len(f)-1] != "0" {
			rec.Viol(scen, "cli(v-line)", "format", "the 'v' lines %q do not end with 0", vLines)
			return
		}
		f = f[:len(f)-1]
		if len(f) != c.N {
			rec.Viol(scen, "cli(v-line)", "length", "the 'v' lines hold %d literals, the file declares %d variables", len(f), c.N)
			return
		}
		var a, seen uint32
		for i, tok := range f {
			v, err := strconv.Atoi(tok)
			if err != nil || v == 0 || v > c.N || -v > c.N || seen>>uint(abs(v)-1)&1 == 1 {
				rec.Viol(scen, "cli(v-line)", "format", "value #%d of the 'v' lines is %q (each declared variable must occur once)", i+1, tok)
				return
			}
			seen |= 1 << uint(abs(v)-1)
			if v > 0 {
				a |= 1 << uint(v-1)
			}
		}
		if bad := p.FirstViolated(a); bad >= 0 {
			rec.Viol(scen, "cli(bad-model)", "v-line", "the printed model %q falsifies clause %v of the file", vLines, c.CNF[bad])
		}
	case "s UNSATISFIABLE":
		if sat {
			rec.Viol(scen, "cli(wrong-verdict)", "Unsat-for-sat", "'s UNSATISFIABLE' printed for a satisfiable file")
			return
		}
		if len(vLines) != 0 {
			rec.Viol(scen, "cli(v-line)", "count", "a 'v' line is printed with 's UNSATISFIABLE'")
		}
	default:
		rec.Viol(scen, "cli(s-line)", "value", "unexpected answer line %q", sLines[0])
		return
	}
	if hasFlag(c, "-certified") {
		// every other line is a certificate line; replay them against the file
		chk := ref.NewRUP(c.CNF, c.N)
		empty := false
		for i, l := range other {
			if f := strings.Fields(l); len(f) > 0 && !isIntToken(f[0]) {
				continue // comment-like line inside the certificate (e.g. deletion information): ignored, as certificate checkers do
			}
			cl, ok := parseCertLine(l)
			if !ok {
				rec.Viol(scen, "cli(certificate)", "format", "line %q of the output is neither a comment, an answer nor a clause", l)
				return
			}
			if !chk.Check(cl) {
				if !sat || !p.Implies(c.N, ref.Cl(cl...)) {
					rec.Viol(scen, "cli(certificate)", "not-rup", "certificate line #%d %v does not follow by unit propagation (file unsatisfiable) / is not a consequence (file satisfiable)", i, cl)
					return
				}
			}
			if len(cl) == 0 {
				empty = true
			}
			chk.Add(cl)
		}
		rec.Count("certificate_lines", len(other))
		if !sat && !empty && !chk.Check(nil) {
			rec.Viol(scen, "cli(certificate)", "no-empty-clause", "unsatisfiable file: the printed certificate does not derive the empty clause")
		}
	} else if len(other) > 0 {
		rec.Viol(scen, "cli(stray-output)", "stdout", "unexpected output lines %q", other)
	}
}

func c19CheckOptim(c *C19Case, rec *Rec, scen string, out *cliOut, sLines, vLines, oLines []string) {
	if out.exit != 0 {
		rec.Viol(scen, "cli(exit-status)", "well-formed", "well-formed file but exit status %d; stderr: %s", out.exit, out.stderr)
		return
	}
	if len(sLines) != 1 {
		rec.Viol(scen, "cli(s-line)", "count", "expected exactly one 's' line, got %q", sLines)
		return
	}
	var opt, n int
	var sat bool
	var costOf func(a uint32) (int, bool)
	if c.Kind == "opb" {
		n = c.P.N
		opt, sat = c.P.MinCost(n)
		costOf = func(a uint32) (int, bool) { return c.P.Cost(a), c.P.Holds(a) }
	} else {
		n = c.Declared
		opt, sat = c.M.Optimum(n)
		costOf = c.M.Cost
	}
	if sLines[0] == "s UNSATISFIABLE" {
		if sat {
			rec.Viol(scen, "cli(wrong-verdict)", "Unsat-for-sat", "'s UNSATISFIABLE' printed for a satisfiable file")
		}
		return
	}
	if sLines[0] != "s OPTIMUM FOUND" && sLines[0] != "s SATISFIABLE" {
		rec.Viol(scen, "cli(s-line)", "value", "unexpected answer line %q", sLines[0])
		return
	}
	if !sat {
		rec.Viol(scen, "cli(wrong-verdict)", "Sat-for-unsat", "%q printed for an unsatisfiable file", sLines[0])
		return
	}
	prev := 0
	for i, l := range oLines {
		v, err := strconv.Atoi(strings.TrimSpace(l[2:]))
		if err != nil {
			rec.Viol(scen, "cli(o-line)", "format", "bad 'o' line %q", l)
			return
		}
		if i > 0 && v >= prev {
			rec.Viol(scen, "cli(o-line)", "not-decreasing", "'o' lines are not strictly decreasing: %q", oLines)
			return
		}
		prev = v
	}
	if len(oLines) == 0 {
		rec.Viol(scen, "cli(o-line)", "missing", "no 'o' line before %q", sLines[0])
		return
	}
	if prev != opt {
		rec.Viol(scen, "cli(not-optimal)", "o-line", "last 'o' line says %d, the optimum of the file is %d", prev, opt)
		return
	}
	if len(vLines) == 0 {
		rec.Viol(scen, "cli(v-line)", "count", "'s OPTIMUM FOUND' without any 'v' line")
		return
	}
	f := vValues(vLines) // possibly spread over several 'v' lines, in any order
	if len(f) != n {
		rec.Viol(scen, "cli(v-line)", "length", "the 'v' lines hold %d literals, the file has %d variables", len(f), n)
		return
	}
	var a, seen uint32
	for i, tok := range f {
		neg := strings.HasPrefix(tok, "-")
		v, err := strconv.Atoi(strings.TrimPrefix(strings.TrimPrefix(tok, "-"), "x"))
		if err != nil || !strings.HasPrefix(strings.TrimPrefix(tok, "-"), "x") || v < 1 || v > n || seen>>uint(v-1)&1 == 1 {
			rec.Viol(scen, "cli(v-line)", "format", "value #%d of the 'v' lines is %q (each variable must occur once, as xN or -xN)", i+1, tok)
			return
		}
		seen |= 1 << uint(v-1)
		if !neg {
			a |= 1 << uint(v-1)
		}
	}
	cost, ok := costOf(a)
	if !ok {
		rec.Viol(scen, "cli(bad-model)", "v-line", "the printed model %q violates a (hard) constraint of the file", vLines)
		return
	}
	if cost != opt {
		rec.Viol(scen, "cli(not-optimal)", "v-line", "the printed model costs %d, the optimum is %d", cost, opt)
	}
	rec.Count("o_lines", len(oLines))
}

func c19CheckMUS(c *C19Case, rec *Rec, scen string, out *cliOut, other []string) {
	p := ref.CNFToProblem(c.CNF, c.N)
	sat := p.Sat(c.N)
	// the DIMACS block starts at the "p cnf" line
	start := -1
	for i, l := range out.lines {
		if strings.HasPrefix(l, "p cnf") {
			start = i
			break
		}
	}
	if sat {
		if start >= 0 {
			rec.Viol(scen, "cli(mus)", "on-satisfiable", "a subset is printed for a satisfiable file:\n%s", out.stdout)
		}
		return
	}
	if out.exit != 0 || start < 0 {
		rec.Viol(scen, "cli(mus)", "missing", "unsatisfiable file but no subset was printed (exit %d, stderr %q)", out.exit, out.stderr)
		return
	}
	d, err := ref.ReadDimacs(strings.Join(out.lines[start:], "\n"))
	if err != nil {
		rec.Viol(scen, "cli(mus)", "format", "the printed subset is not well-formed DIMACS: %v\n%s", err, out.stdout)
		return
	}
	if ok, w := subMultiset(d.Clauses, c.CNF); !ok {
		rec.Viol(scen, "cli(mus)", "not-submultiset", "printed clause %v does not occur (that often) in the file", w)
		return
	}
	n := max(c.N, d.NbVars)
	if ref.CNFToProblem(d.Clauses, n).Sat(n) {
		rec.Viol(scen, "cli(mus)", "not-unsat", "the printed subset %v is satisfiable", d.Clauses)
		return
	}
	for i := range d.Clauses {
		rest := append(append([][]int{}, d.Clauses[:i]...), d.Clauses[i+1:]...)
		if !ref.CNFToProblem(rest, n).Sat(n) {
			rec.Viol(scen, "cli(mus)", "not-minimal", "the printed subset %v stays unsatisfiable without %v", d.Clauses, d.Clauses[i])
			return
		}
	}
	rec.Count("mus_printed", 1)
}

func c19CheckBF(c *C19Case, rec *Rec, scen string, out *cliOut, other []string) {
	if out.exit != 0 {
		rec.Viol(scen, "cli(exit-status)", "well-formed", "well-formed formula but exit status %d; stderr: %s", out.exit, out.stderr)
		return
	}
	sat := c.F.HasModel()
	if len(other) == 0 {
		rec.Viol(scen, "cli(bf)", "no-answer", "no answer line")
		return
	}
	switch other[0] {
	case "UNSATISFIABLE":
		if sat {
			rec.Viol(scen, "cli(wrong-verdict)", "Unsat-for-sat", "UNSATISFIABLE printed for a satisfiable formula %s", c.F)
		}
	case "SATISFIABLE":
		if !sat {
			rec.Viol(scen, "cli(wrong-verdict)", "Sat-for-unsat", "SATISFIABLE printed for an unsatisfiable formula %s", c.F)
			return
		}
		m := map[string]bool{}
		for _, l := range other[1:] {
			i := strings.LastIndex(l, ": ")
			if i < 0 {
				rec.Viol(scen, "cli(bf)", "format", "unexpected line %q", l)
				return
			}
			m[l[:i]] = l[i+2:] == "true"
		}
		vars := c.F.Vars()
		var missing []string
		for _, v := range vars {
			if _, ok := m[v]; !ok {
				missing = append(missing, v)
			}
		}
		for a := uint32(0); a < 1<<uint(len(missing)); a++ {
			for i, v := range missing {
				m[v] = a>>uint(i)&1 == 1
			}
			if !c.F.Eval(m) {
				rec.Viol(scen, "cli(bad-model)", "bf", "the printed assignment %v falsifies %s", m, c.F)
				return
			}
		}
	default:
		rec.Viol(scen, "cli(bf)", "answer", "unexpected first line %q", other[0])
	}
}

func init() {
	register(&Prop{
		ID:       "C19",
		NumCases: func(tier string) int { return c19Counts[tier] },
		Gen:      c19Gen,
		New:      func() interface{} { return &C19Case{} },
		Run:      c19Run,
		Rule: "the gophersat binary built from /repo (tag verif, so that VERIF_STEP_BUDGET turns a hang into an abort) is run as a child process on generated files: .cnf (free layout; flags none, -count, -certified, -mus, -cp, -verbose, -certified -verbose, -cp -verbose), .opb (none, -cp, -verbose, -count), .wcnf (none, -verbose), .bf, plus missing files, unknown suffixes and malformed files; stdout, stderr and the exit status are judged by the harness's readers: exactly one 's' line, 'v' line a model of the file of the declared length, 's UNSATISFIABLE' only for unsatisfiable files, 'o' lines strictly decreasing and ending in the optimum attained by the 'v' model, exact count, certificate lines replayed by the independent RUP checker, -mus block a minimal unsatisfiable sub-multiset, .bf assignment satisfying the formula under every completion; bad files: exit status != 0 and no answer line. " +
			"non-trivial = run whose output was fully judged; distinct by (flags, file content)",
		Assumptions: []string{
			"reference oracles of internal/ref; files have at most 12 variables",
			"a decision .opb answered 's OPTIMUM FOUND' with 'o 0' is accepted; the Go-struct dump printed before the -mus block is ignored; -mus on a satisfiable file may exit with status 1",
		},
		Floors: map[string]map[string]int64{
			"quick":    {"runs_cnf": 400, "runs_opb": 150, "runs_wcnf": 100, "runs_bf": 60, "mus_printed": 30, "certificate_lines": 100},
			"thorough": {"runs_cnf": 10000, "runs_opb": 4000, "runs_wcnf": 3000, "runs_bf": 1500, "mus_printed": 800, "certificate_lines": 3000},
		},
	})
}
