package props

import (
	"fmt"
	"runtime"
	"sort"
	"strings"
	"sync/atomic"

	"github.com/crillab/gophersat/maxsat"
	"github.com/crillab/gophersat/solver"

	"verif/internal/gen"
	"verif/internal/ref"
)

// C20 — the stream of intermediate results is valid, improving and always terminated.

// C20Case is a problem with a result stream and a consumer behaviour.
type C20Case struct {
	Entry    string       `json:"entry"` // optimal | wcnf | enumerate
	P        *ref.Problem `json:"p,omitempty"`
	M        *gen.MaxSat  `json:"m,omitempty"`
	Declared int          `json:"declared,omitempty"`
	Cap      int          `json:"cap"`      // channel capacity
	Consumer int          `json:"consumer"` // 0 none, 1 Gosched before each receive, 2 spin before every K-th receive, 3 slow start
	K        int          `json:"k"`
	SendPct  uint32       `json:"sendPct"` // producer-side perturbation at hand-over points (in 1/256)
	StepPct  uint32       `json:"stepPct"`
	Procs    int          `json:"procs"`
	Seed     uint64       `json:"seed"`
}

var c20Counts = map[string]int{"quick": 6_000, "thorough": 150_000}

func c20Gen(r *gen.Rng, tier string, idx int) interface{} {
	c := &C20Case{Entry: []string{"optimal", "optimal", "wcnf", "wcnf", "enumerate"}[r.Intn(5)]}
	c.Cap = []int{0, 0, 1, 2, 8}[r.Intn(5)]
	c.Consumer = r.Intn(4)
	c.K = r.Range(1, 4)
	c.SendPct = []uint32{0, 64, 128, 255}[r.Intn(4)]
	c.StepPct = []uint32{0, 0, 200, 2000}[r.Intn(4)]
	c.Procs = []int{1, 2, 2, 16}[r.Intn(4)]
	c.Seed = r.U64()
	switch c.Entry {
	case "optimal": // OPB-like objective whose cheap literals are fought by the constraints
		c.P = gen.RandomPBProblem(r, gen.PBOpts{MinVars: 5, MaxVars: 11, MaxW: r.Range(1, 4), NegCoefs: r.Bool(), MaxCons: 6, Hard: r.Chance(1, 2)})
		c.P.N = max(c.P.N, c.P.MaxVar())
		c.P.HasCost = true
		n := c.P.N
		c.P.CostLits = make([]int, n)
		c.P.CostW = make([]int, n)
		for v := 1; v <= n; v++ {
			c.P.CostLits[v-1] = v
			if r.Chance(1, 4) {
				c.P.CostLits[v-1] = -v
			}
			c.P.CostW[v-1] = r.Range(1, 6)
		}
		if r.Chance(1, 8) {
			c.P.HasCost, c.P.CostLits, c.P.CostW = false, nil, nil
		}
	case "wcnf": // over-constrained soft part: several improvements per stream
		n := r.Range(5, 10)
		m := &gen.MaxSat{N: n}
		for k := r.Intn(5); k > 0; k-- {
			m.Hard = append(m.Hard, ref.Cl(r.DistinctLits(n, r.Range(2, 3))...))
		}
		for k := r.Range(10, 60); k > 0; k-- {
			m.Soft = append(m.Soft, ref.Cl(r.DistinctLits(n, r.Range(1, 3))...))
			m.W = append(m.W, r.Range(1, 5))
		}
		if r.Chance(1, 10) { // unsatisfiable hard part
			x := r.Intn(n) + 1
			m.Hard = append(m.Hard, ref.Cl(x), ref.Cl(-x))
		}
		c.M = m
		c.Declared = n + r.Intn(2)
	case "enumerate":
		cnf, n := gen.RandomCNF(r, gen.CNFOpts{MinVars: 1, MaxVars: 8, MaxLen: 4, Weird: r.Bool()})
		if len(cnf) > n {
			cnf = cnf[:n]
		}
		if mv := MaxVarCNF(cnf); mv > n {
			n = mv
		}
		c.P = ref.CNFToProblem(cnf, n)
	}
	return c
}

// stream events, ordered by one atomic counter
type streamEvent struct {
	seq   uint64
	kind  string // recv | closed | return | notclosed
	res   solver.Result
	model []bool
	count int
}

type streamTrace struct {
	clock  uint64
	events []streamEvent // appended by the consumer, then by the caller after the consumer is done
}

func (t *streamTrace) tick() uint64 { return atomic.AddUint64(&t.clock, 1) }

// consumeDelay applies the consumer's behaviour before its i-th receive.
func consumeDelay(c *C20Case, i int) {
	switch c.Consumer {
	case 1:
		runtime.Gosched()
	case 2:
		if i%c.K == 0 {
			Spin(3000)
		}
	case 3:
		if i == 0 {
			for k := 0; k < 20; k++ {
				runtime.Gosched()
				Spin(500)
			}
		}
	}
}

func c20Run(ci interface{}, rec *Rec) {
	c := ci.(*C20Case)
	old := runtime.GOMAXPROCS(c.Procs)
	defer runtime.GOMAXPROCS(old)
	SetSchedule(c.Seed, c.SendPct, c.StepPct)
	defer SetSchedule(0, 0, 0)
	scen := map[string]string{"optimal": "solver.Optimal(chan)", "wcnf": "maxsat.Optimal(chan)", "enumerate": "solver.Enumerate(chan)"}[c.Entry]
	trace := &streamTrace{}
	retCh := make(chan struct{})
	consumerDone := make(chan struct{})
	var callPanicked bool
	var retEvent streamEvent

	// the consumer is the only receiver; once told that the call returned it drains without blocking
	startConsumer := func(recvOne func(block bool) (ev streamEvent, got bool, closed bool)) {
		go func() {
			defer close(consumerDone)
			returned := false
			for i := 0; ; i++ {
				if !returned {
					consumeDelay(c, i)
				}
				ev, got, closed := recvOne(!returned)
				switch {
				case closed:
					trace.events = append(trace.events, streamEvent{seq: trace.tick(), kind: "closed"})
					return
				case got:
					ev.seq, ev.kind = trace.tick(), "recv"
					trace.events = append(trace.events, ev)
				default: // nothing available
					if returned {
						trace.events = append(trace.events, streamEvent{seq: trace.tick(), kind: "notclosed"})
						return
					}
				}
				if !returned {
					select {
					case <-retCh:
						returned = true
					default:
					}
				}
			}
		}()
	}

	switch c.Entry {
	case "optimal", "wcnf":
		ch := make(chan solver.Result, c.Cap)
		recvOne := func(block bool) (streamEvent, bool, bool) {
			if block {
				select {
				case r, ok := <-ch:
					if !ok {
						return streamEvent{}, false, true
					}
					return streamEvent{res: r}, true, false
				case <-retCh:
					// the call returned while we were waiting: switch to drain mode
					retChClosedNote()
					return streamEvent{}, false, false
				}
			}
			select {
			case r, ok := <-ch:
				if !ok {
					return streamEvent{}, false, true
				}
				return streamEvent{res: r}, true, false
			default:
				return streamEvent{}, false, false
			}
		}
		var s solver.Interface
		if c.Entry == "optimal" {
			var pb *solver.Problem
			if rec.Guard(scen+"/build", func() { pb, _ = solver.ParseOPB(strings.NewReader(RenderOPB(c.P))) }) || pb == nil {
				return
			}
			s = solver.New(pb)
		} else {
			var err error
			if rec.Guard(scen+"/build", func() { s, err = maxsat.ParseWCNF(strings.NewReader(RenderWCNF(c.M, c.Declared, true))) }) || err != nil {
				return
			}
		}
		startConsumer(recvOne)
		callPanicked = rec.Guard(scen, func() {
			res := s.Optimal(ch, nil)
			retEvent = streamEvent{seq: trace.tick(), kind: "return", res: res}
		})
	case "enumerate":
		ch := make(chan []bool, c.Cap)
		recvOne := func(block bool) (streamEvent, bool, bool) {
			if block {
				select {
				case m, ok := <-ch:
					if !ok {
						return streamEvent{}, false, true
					}
					return streamEvent{model: m}, true, false
				case <-retCh:
					return streamEvent{}, false, false
				}
			}
			select {
			case m, ok := <-ch:
				if !ok {
					return streamEvent{}, false, true
				}
				return streamEvent{model: m}, true, false
			default:
				return streamEvent{}, false, false
			}
		}
		var cnf [][]int
		for _, l := range c.P.Cons {
			cnf = append(cnf, append([]int{}, l.Lits...))
		}
		var pb *solver.Problem
		if rec.Guard(scen+"/build", func() { pb = solver.ParseSliceNb(cnf, c.P.N) }) {
			return
		}
		s := solver.New(pb)
		startConsumer(recvOne)
		callPanicked = rec.Guard(scen, func() {
			n := s.Enumerate(ch, nil)
			retEvent = streamEvent{seq: trace.tick(), kind: "return", count: n}
		})
	}
	close(retCh)
	<-consumerDone
	rec.Count("schedule_perturbations", ScheduleHits())
	if callPanicked {
		return
	}
	c20Check(c, rec, scen, trace.events, retEvent)
}

func retChClosedNote() {}

// c20Check is the offline checker of the recorded trace.
func c20Check(c *C20Case, rec *Rec, scen string, events []streamEvent, ret streamEvent) {
	rec.Count("streams", 1)
	rec.Count("streams_"+c.Entry, 1)
	nbClosed, nbRecv := 0, 0
	var recvs []streamEvent
	for i, e := range events {
		switch e.kind {
		case "closed":
			nbClosed++
			if i != len(events)-1 {
				rec.Viol(scen, "protocol(recv-after-close)", "stream", "an event follows the close event")
			}
		case "notclosed":
			rec.Viol(scen, "protocol(not-closed-at-return)", "stream", "the call returned (event %d) but the channel is neither closed nor holds a value (%d results received)", ret.seq, nbRecv)
			return
		case "recv":
			nbRecv++
			recvs = append(recvs, e)
		}
	}
	if nbClosed != 1 {
		rec.Viol(scen, "protocol(close-count)", "stream", "the consumer observed %d close events", nbClosed)
		return
	}
	rec.Count("results_received", nbRecv)
	rec.Max("max_stream_length", nbRecv)
	if nbRecv >= 2 {
		rec.Count("streams_with_2plus_results", 1)
	}
	rec.Count(fmt.Sprintf("combo_cap%d_cons%d_procs%d", c.Cap, c.Consumer, c.Procs), 1)
	if c.Entry == "enumerate" {
		n := c.P.N
		exp := c.P.Models(n)
		var got []uint32
		for _, e := range recvs {
			if len(e.model) != n {
				rec.Viol(scen, "model-length", "stream", "a delivered model has %d values, %d variables declared", len(e.model), n)
				return
			}
			got = append(got, ref.BoolsToAssign(e.model))
		}
		sort.Slice(got, func(i, j int) bool { return got[i] < got[j] })
		dup, extra, missing := diffModels(got, exp)
		if dup >= 0 {
			rec.Viol(scen, "duplicate-model", "stream", "model %s delivered twice", ref.AssignString(uint32(dup), n))
		}
		if extra >= 0 {
			rec.Viol(scen, "bad-model", "stream", "delivered assignment %s is not a model", ref.AssignString(uint32(extra), n))
		}
		if missing >= 0 {
			rec.Viol(scen, "wrong-count", "stream", "model %s never delivered", ref.AssignString(uint32(missing), n))
		}
		if ret.count != len(got) || ret.count != len(exp) {
			rec.Viol(scen, "wrong-count", "return", "Enumerate returned %d, delivered %d models, the problem has %d", ret.count, len(got), len(exp))
		}
		if nbRecv >= 2 {
			rec.Interesting(JS(c))
		}
		return
	}
	// optimisation streams
	var costOf func(model []bool) (int, bool)
	var opt int
	var sat bool
	var wantLen int
	if c.Entry == "optimal" {
		n := c.P.N
		wantLen = max(c.P.MaxVar(), 0) // OPB: the variables are 1..highest variable mentioned
		opt, sat = c.P.MinCost(n)
		costOf = func(model []bool) (int, bool) {
			a := ref.BoolsToAssign(model)
			return c.P.Cost(a), c.P.Holds(a)
		}
	} else {
		wantLen = c.Declared
		opt, sat = c.M.Optimum(max(c.Declared, 1))
		costOf = func(model []bool) (int, bool) {
			a := ref.BoolsToAssign(model)
			if c.Declared < 32 {
				a &= 1<<uint(c.Declared) - 1
			}
			return c.M.Cost(a)
		}
	}
	if !sat {
		rec.Count("unsat_streams", 1)
		if nbRecv > 1 || (nbRecv == 1 && recvs[0].res.Status != solver.Unsat) {
			rec.Viol(scen, "protocol(unsat-stream)", "stream", "unsatisfiable problem: expected at most one result, with status Unsat, on the stream; got %d results", nbRecv)
		}
		if ret.res.Status != solver.Unsat {
			rec.Viol(scen, "wrong-verdict", "return", "unsatisfiable problem but the call returned %s", StatusName(ret.res.Status))
		}
		return
	}
	prev := 0
	for i, e := range recvs {
		if e.res.Status != solver.Sat {
			rec.Viol(scen, "protocol(bad-result)", "stream", "result #%d on the stream has status %s although the problem is satisfiable", i, StatusName(e.res.Status))
			return
		}
		if len(e.res.Model) != wantLen {
			rec.Viol(scen, "model-length", "stream", "result #%d has a model of %d values, expected %d", i, len(e.res.Model), wantLen)
			return
		}
		cost, ok := costOf(e.res.Model)
		if !ok {
			rec.Viol(scen, "bad-model", "stream", "result #%d is not a model of the constraints: %v", i, e.res.Model)
			return
		}
		if cost != e.res.Weight {
			rec.Viol(scen, "cost-mismatch", "stream", "result #%d reports weight %d, its model costs %d", i, e.res.Weight, cost)
			return
		}
		if i > 0 && e.res.Weight >= prev {
			rec.Viol(scen, "protocol(not-decreasing)", "stream", "result #%d has weight %d after %d", i, e.res.Weight, prev)
			return
		}
		prev = e.res.Weight
	}
	if nbRecv == 0 {
		rec.Viol(scen, "protocol(empty-stream)", "stream", "satisfiable problem but nothing was delivered on the stream")
		return
	}
	last := recvs[nbRecv-1].res
	if last.Status != ret.res.Status || last.Weight != ret.res.Weight || fmt.Sprint(last.Model) != fmt.Sprint(ret.res.Model) {
		rec.Viol(scen, "protocol(last!=returned)", "stream", "last delivered result (%s,%d,%v) differs from the returned one (%s,%d,%v)", StatusName(last.Status), last.Weight, last.Model, StatusName(ret.res.Status), ret.res.Weight, ret.res.Model)
	}
	if ret.res.Weight != opt {
		rec.Viol(scen, "not-optimal", "return", "returned weight %d, optimum %d", ret.res.Weight, opt)
	}
	if nbRecv >= 2 {
		rec.Interesting(JS(c))
		type ev struct {
			Seq    uint64 `json:"seq"`
			Kind   string `json:"kind"`
			Status string `json:"status,omitempty"`
			Weight int    `json:"weight"`
		}
		var trace []ev
		for _, e := range events {
			trace = append(trace, ev{e.seq, e.kind, StatusName(e.res.Status), e.res.Weight})
		}
		trace = append(trace, ev{ret.seq, "return", StatusName(ret.res.Status), ret.res.Weight})
		rec.Sample = map[string]interface{}{"case": c, "recorded_trace": trace, "reference_optimum": opt}
	}
}

func init() {
	register(&Prop{
		ID:       "C20",
		Race:     true,
		Procs:    16,
		NumCases: func(tier string) int { return c20Counts[tier] },
		Gen:      c20Gen,
		New:      func() interface{} { return &C20Case{} },
		Run:      c20Run,
		Setup:    func(string) { InstallConcurrentHooks() },
		Rule: "streams of solver.Optimal (OPB problems with a full-length objective), maxsat.Solver.Optimal (WCNF with 10..60 soft clauses over 5..10 variables, so that several improvements are streamed) and solver.Enumerate, each with a consumer goroutine that is the only receiver, under channel capacity 0/1/2/8, consumer behaviour none / Gosched before each receive / spin before every k-th receive / slow start, producer-side perturbation (Gosched or spinning at the verifDelay points before each send, in the MaxSAT forwarder, and at search steps), GOMAXPROCS 1/2/16, built with the race detector. Events (recv, closed, return) are stamped by one atomic counter and checked offline: every result is a model with its true cost, costs strictly decrease, last delivered = returned = optimum, exactly one close, at return the channel is closed or only holds already-sent values, Enumerate delivers exactly the truth-table model set. A deadlock is reported by the Go runtime (no timer is used). " +
			"non-trivial = stream with >= 2 results; distinct by case",
		Assumptions: []string{
			"reference truth table / exhaustive MaxSAT optimum of internal/ref and internal/gen",
			"schedules are explored, not exhausted: the evidence lists the (capacity, consumer, GOMAXPROCS) combinations and the number of perturbations actually applied",
		},
		Floors: map[string]map[string]int64{
			"quick":    {"streams_with_2plus_results": 500, "streams_enumerate": 500, "streams_wcnf": 1000, "streams_optimal": 1000, "schedule_perturbations": 5000},
			"thorough": {"streams_with_2plus_results": 12000, "streams_enumerate": 12000, "streams_wcnf": 25000, "streams_optimal": 25000, "schedule_perturbations": 100000},
		},
	})
}
