package props

import (
	"fmt"
	"strings"
	"sync"

	"github.com/crillab/gophersat/solver"

	"verif/internal/ref"
)

// DefaultStepBudget bounds the number of loop iterations of one solver: "terminates" is decided as
// bounded progress in logical steps, never by the clock.
const DefaultStepBudget = 5_000_000

// DefaultGlobalBudget bounds the iterations, per case, of the loops that are not attached to one solver
// (problem simplification, certificate checking passes, MUS extraction rounds).
const DefaultGlobalBudget = 100_000

// ConcurrentMode is set once, before any task starts, by the scenarios that run several cases at the same time.
var ConcurrentMode bool

// oracleBudget is the work budget of a reference search. When cases run as concurrent tasks of C16 (race-detector
// build, many at once) the reference gets a twentieth of it: a task whose reference gives up is simply not judged.
func oracleBudget(b int64) int64 {
	if ConcurrentMode {
		return b / 20
	}
	return b
}

// hook configuration shared with the OnNew / OnStep callbacks. Sequential workers set it per case.
var hookCfg struct {
	sync.Mutex
	learnedLimit int // 0: leave default
	sticky       bool
}

// InstallSeqHooks installs the hooks used by the sequential (non-concurrent) scenarios.
func InstallSeqHooks() {
	BeforeCase = solver.VerifResetGlobalSteps
	solver.VerifHooks.StepBudget = DefaultStepBudget
	solver.VerifHooks.GlobalBudget = DefaultGlobalBudget
	solver.VerifHooks.OnNew = func(s *solver.Solver) {
		if hookCfg.learnedLimit > 0 {
			s.VerifSetLearnedLimit(hookCfg.learnedLimit)
		}
	}
	solver.VerifHooks.OnStep = func(s *solver.Solver, point string) {
		if hookCfg.sticky && hookCfg.learnedLimit > 0 && (point == "propagateAndSearch" || point == "propagateAndSearchPB") {
			s.VerifSetLearnedLimit(hookCfg.learnedLimit)
		}
	}
}

// SetLearnedLimit sets the learned-clause limit given to solvers created from now on (0: default).
// With sticky the limit is re-applied at every search step so that reduction recurs every limit conflicts.
func SetLearnedLimit(limit int, sticky bool) {
	if ConcurrentMode { // tasks run in parallel: no per-case hook configuration
		return
	}
	hookCfg.learnedLimit = limit
	hookCfg.sticky = sticky
	solver.VerifResetGlobalSteps()
}

// CloneCNF deep-copies a clause list: gophersat's constructors take ownership of what they are given.
func CloneCNF(cnf [][]int) [][]int { return ref.CloneCNF(cnf) }

// RenderDIMACS writes a plain DIMACS text.
func RenderDIMACS(cnf [][]int, n int) string {
	var sb strings.Builder
	fmt.Fprintf(&sb, "p cnf %d %d\n", n, len(cnf))
	for _, c := range cnf {
		for _, l := range c {
			fmt.Fprintf(&sb, "%d ", l)
		}
		sb.WriteString("0\n")
	}
	return sb.String()
}

// MaxVarCNF returns the highest variable used.
func MaxVarCNF(cnf [][]int) int {
	m := 0
	for _, c := range cnf {
		for _, l := range c {
			if l < 0 {
				l = -l
			}
			if l > m {
				m = l
			}
		}
	}
	return m
}

// CanonCNF renders a CNF for de-duplication.
func CanonCNF(cnf [][]int, n int) string {
	return fmt.Sprint(n, cnf)
}

// StatusName names a status without panicking on odd values.
func StatusName(st solver.Status) string {
	switch st {
	case solver.Indet:
		return "Indet"
	case solver.Sat:
		return "Sat"
	case solver.Unsat:
		return "Unsat"
	}
	return fmt.Sprintf("Status(%d)", st)
}

// CardConstrsOf converts unit-coefficient constraints to gophersat cardinality constraints
// through the public constructors. Each call returns fresh slices.
func CardConstrsOf(l ref.Lin) []solver.CardConstr {
	lits := append([]int{}, l.Lits...)
	if l.Rhs == 1 && len(lits) > 0 { // the dedicated constructors
		switch l.Rel {
		case ref.GE:
			return []solver.CardConstr{solver.AtLeast1(lits...)}
		case ref.LE:
			return []solver.CardConstr{solver.AtMost1(lits...)}
		default:
			return solver.Exactly1(lits...)
		}
	}
	switch l.Rel {
	case ref.GE:
		return []solver.CardConstr{{Lits: lits, AtLeast: l.Rhs}}
	case ref.LE:
		neg := make([]int, len(lits))
		for i, x := range lits {
			neg[i] = -x
		}
		return []solver.CardConstr{{Lits: neg, AtLeast: len(lits) - l.Rhs}}
	}
	neg := make([]int, len(lits))
	for i, x := range lits {
		neg[i] = -x
	}
	return []solver.CardConstr{{Lits: lits, AtLeast: l.Rhs}, {Lits: neg, AtLeast: len(lits) - l.Rhs}}
}

// PBConstrsOf converts a linear constraint to gophersat PB constraints through the public constructors
// GtEq / LtEq / Eq (weighted) or AtLeast / AtMost (unit coefficients). Each call returns fresh slices.
func PBConstrsOf(l ref.Lin) []solver.PBConstr {
	lits := append([]int{}, l.Lits...)
	if l.Coefs == nil {
		switch l.Rel {
		case ref.GE:
			if l.Rhs == 1 {
				return []solver.PBConstr{solver.PropClause(lits...)}
			}
			return []solver.PBConstr{solver.AtLeast(lits, l.Rhs)}
		case ref.LE:
			return []solver.PBConstr{solver.AtMost(lits, l.Rhs)}
		}
		lits2 := append([]int{}, l.Lits...)
		return []solver.PBConstr{solver.AtLeast(lits, l.Rhs), solver.AtMost(lits2, l.Rhs)}
	}
	coefs := append([]int{}, l.Coefs...)
	switch l.Rel {
	case ref.GE:
		return []solver.PBConstr{solver.GtEq(lits, coefs, l.Rhs)}
	case ref.LE:
		return []solver.PBConstr{solver.LtEq(lits, coefs, l.Rhs)}
	}
	return solver.Eq(lits, coefs, l.Rhs)
}

// ModelOK checks a []bool model against a reference problem; returns the index of the first
// violated constraint or -1. Variables beyond the model are treated as false.
func ModelOK(p *ref.Problem, model []bool) int {
	return p.FirstViolated(ref.BoolsToAssign(model))
}

// RenderOPB writes p as a plain OPB text (one constraint per line, <= rewritten as >= by negating both sides).
func RenderOPB(p *ref.Problem) string {
	var sb strings.Builder
	fmt.Fprintf(&sb, "* #variable= %d #constraint= %d\n", p.N, len(p.Cons))
	term := func(w, l int) {
		if l < 0 {
			fmt.Fprintf(&sb, "%+d ~x%d ", w, -l)
		} else {
			fmt.Fprintf(&sb, "%+d x%d ", w, l)
		}
	}
	if p.HasCost {
		sb.WriteString("min: ")
		for i, l := range p.CostLits {
			w := 1
			if p.CostW != nil {
				w = p.CostW[i]
			}
			term(w, l)
		}
		sb.WriteString(";\n")
	}
	for _, c := range p.Cons {
		sign := 1
		if c.Rel == ref.LE {
			sign = -1
		}
		for i, l := range c.Lits {
			w := 1
			if c.Coefs != nil {
				w = c.Coefs[i]
			}
			term(sign*w, l)
		}
		if c.Rel == ref.EQ {
			fmt.Fprintf(&sb, "= %d ;\n", c.Rhs)
		} else {
			fmt.Fprintf(&sb, ">= %d ;\n", sign*c.Rhs)
		}
	}
	return sb.String()
}

// ToLits converts DIMACS-style ints to solver literals.
func ToLits(ints []int) []solver.Lit {
	res := make([]solver.Lit, len(ints))
	for i, v := range ints {
		res[i] = solver.IntToLit(int32(v))
	}
	return res
}

// CopyInts returns a fresh copy, keeping nil as nil.
func CopyInts(l []int) []int {
	if l == nil {
		return nil
	}
	return append([]int{}, l...)
}

func stringsReader(s string) *strings.Reader { return strings.NewReader(s) }
