package props

import (
	"github.com/crillab/gophersat/solver"

	"verif/internal/gen"
	"verif/internal/ref"
)

// C15 — at-most-one detection preserves the set of models.

// C15Case is a problem rich in binary clauses.
type C15Case struct {
	P     *ref.Problem `json:"p"`
	Front string       `json:"front"` // slicenb | pb
}

var c15Counts = map[string]int{"quick": 40_000, "thorough": 800_000}

func c15Gen(r *gen.Rng, tier string, idx int) interface{} {
	c := &C15Case{Front: "slicenb"}
	if r.Chance(1, 4) {
		c.Front = "pb"
	}
	c.P = gen.RandomAMOProblem(r, 10, c.Front == "pb")
	if c.Front == "slicenb" && r.Chance(1, 5) {
		// any CNF, not only those built around cliques: unit clauses, problems decided (possibly refuted) at parse time,
		// repeated literals, tautologies, unused variables
		cnf, n := gen.RandomCNF(r, gen.CNFOpts{MinVars: 1, MaxVars: 10, MaxLen: 4, Weird: true})
		var c2 [][]int
		for _, cl := range cnf {
			if len(cl) > 0 {
				c2 = append(c2, cl)
			}
		}
		if mv := MaxVarCNF(c2); mv > n {
			n = mv
		}
		c.P = ref.CNFToProblem(c2, n)
	}
	if r.Chance(1, 3) && c.P.N > 0 {
		c.P.HasCost = true
		c.P.CostLits, c.P.CostW = gen.RandomCost(r, c.P.N, 4, false, false)
	}
	return c
}

func c15Build(c *C15Case, rec *Rec, scen string) (pb *solver.Problem) {
	rec.Guard(scen+"/build", func() {
		if c.Front == "slicenb" {
			var cnf [][]int
			for _, l := range c.P.Cons {
				cnf = append(cnf, append([]int{}, l.Lits...))
			}
			pb = solver.ParseSliceNb(cnf, c.P.N)
		} else {
			pb = buildPBProblem(c.P, "pb")
		}
		if c.P.HasCost && pb.NbVars >= c.P.MaxVar() {
			pb.SetCostFunc(ToLits(c.P.CostLits), CopyInts(c.P.CostW))
		}
	})
	return pb
}

func c15Run(ci interface{}, rec *Rec) {
	c := ci.(*C15Case)
	scen := map[string]string{"slicenb": "ParseSliceNb", "pb": "ParsePBConstrs"}[c.Front] + "+DetectAtMostOne"
	SetLearnedLimit(0, false)
	before := c15Build(c, rec, scen)
	after := c15Build(c, rec, scen)
	if before == nil || after == nil {
		return
	}
	nbBefore := len(after.Clauses)
	nbCardBefore := 0
	for _, cl := range after.Clauses {
		if cl.Cardinality() > 1 {
			nbCardBefore++
		}
	}
	if rec.Guard(scen, func() { after.DetectAtMostOne() }) {
		return
	}
	rec.Count("detections", 1)
	nbCardAfter := 0
	for _, cl := range after.Clauses {
		if cl.Cardinality() > 1 {
			nbCardAfter++
		}
	}
	if nbCardAfter > nbCardBefore {
		rec.Count("with_new_cardinality_constraint", 1)
		rec.Count("new_cardinality_constraints", nbCardAfter-nbCardBefore)
	}
	if len(after.Clauses) != nbBefore {
		rec.Count("with_changed_clause_count", 1)
	}
	if after.NbVars != before.NbVars {
		rec.Viol(scen, "wrong-parse", "NbVars", "NbVars changed from %d to %d", before.NbVars, after.NbVars)
		return
	}
	n := before.NbVars
	nbModels := 0
	for a := uint32(0); a < 1<<uint(n); a++ {
		var b1, b2 bool
		if rec.Guard(scen+"/accessors", func() { b1, b2 = EvalSolverProblem(before, a), EvalSolverProblem(after, a) }) {
			return
		}
		if b1 {
			nbModels++
		}
		if b1 != b2 {
			rec.Viol(scen, "models-changed", "DetectAtMostOne", "assignment %s is a model before detection = %v, after = %v; constraints %s", ref.AssignString(a, n), b1, b2, JS(c.P.Cons))
			return
		}
	}
	rec.Count("assignments_compared", 1<<uint(n))
	// consequently: verdict, count and optimum through the solver
	var st solver.Status
	var cnt, cost int
	if rec.Guard(scen+"+Solve", func() { st = solver.New(c15After(c, rec, scen)).Solve() }) {
		return
	}
	if (st == solver.Sat) != (nbModels > 0) {
		rec.Viol(scen+"+Solve", "wrong-verdict", StatusName(st), "after detection Solve answers %s, the problem has %d models", StatusName(st), nbModels)
	}
	if rec.Guard(scen+"+CountModels", func() { cnt = solver.New(c15After(c, rec, scen)).CountModels() }) {
		return
	}
	if cnt != nbModels {
		rec.Viol(scen+"+CountModels", "wrong-count", "CountModels", "after detection CountModels returns %d, the problem has %d models", cnt, nbModels)
	}
	if c.P.HasCost && before.Optim() {
		min, sat := c.P.MinCost(max(n, c.P.MaxVar()))
		if rec.Guard(scen+"+Minimize", func() { cost = solver.New(c15After(c, rec, scen)).Minimize() }) {
			return
		}
		if (sat && cost != min) || (!sat && cost != -1) {
			rec.Viol(scen+"+Minimize", "not-optimal", "Minimize", "after detection Minimize returns %d, the optimum is (%v,%d)", cost, sat, min)
		}
	}
	if nbCardAfter > nbCardBefore || len(after.Clauses) != nbBefore {
		rec.Interesting(JS(c.P.Cons))
	}
}

// c15After builds the problem again and runs the detection on it (solvers take ownership of problems).
func c15After(c *C15Case, rec *Rec, scen string) *solver.Problem {
	pb := c15Build(c, rec, scen)
	pb.DetectAtMostOne()
	return pb
}

func init() {
	register(&Prop{
		ID:       "C15",
		NumCases: func(tier string) int { return c15Counts[tier] },
		Gen:      c15Gen,
		New:      func() interface{} { return &C15Case{} },
		Run:      c15Run,
		Setup:    func(string) { InstallSeqHooks() },
		Rule: "random problems over 3..10 variables rich in binary clauses: 1..3 complete or incomplete cliques of 2..5 (mostly negative, sometimes mixed-polarity) literals written in either literal order, optionally with the at-least-one clause, binary clauses in no clique, repeated binary clauses, longer clauses, and (1 in 4, through ParsePBConstrs) cardinality and PB constraints; 1 CNF case in 5 is an arbitrary random CNF instead (unit clauses, problems decided or refuted at parse time, repeated literals, tautologies, unused variables); the problem is built twice, DetectAtMostOne runs on one copy, and both are evaluated through the public Clause accessors under every assignment; then Solve, CountModels and Minimize on detected copies are compared with the reference. " +
			"non-trivial = the detection changed the clause list (created a cardinality constraint or removed clauses); distinct by constraint list",
		Assumptions: []string{"reference truth table of internal/ref", "the problem before detection is evaluated with the same accessor-based evaluator as after"},
		Floors: map[string]map[string]int64{
			"quick":    {"with_new_cardinality_constraint": 5000, "detections": 30000},
			"thorough": {"with_new_cardinality_constraint": 100000, "detections": 600000},
		},
	})
}
