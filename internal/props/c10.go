package props

import (
	"fmt"

	"github.com/crillab/gophersat/solver"

	"verif/internal/gen"
	"verif/internal/ref"
)

// C10 — solving under assumptions decides formula AND current assumptions.

// C10Case is a base CNF and a sequence of assumption lists.
type C10Case struct {
	N          int     `json:"n"`
	CNF        [][]int `json:"cnf"`
	Front      string  `json:"front"`
	PlainFirst bool    `json:"plainFirst"`
	Rounds     [][]int `json:"rounds"`
	Limit      int     `json:"limit"`
}

var c10Counts = map[string]int{"quick": 60_000, "thorough": 1_200_000}

func c10Gen(r *gen.Rng, tier string, idx int) interface{} {
	c := &C10Case{Front: []string{"slice", "slicenb", "dimacs"}[r.Intn(3)], PlainFirst: r.Chance(1, 3), Limit: []int{0, 0, 3}[r.Intn(3)]}
	long := false
	switch r.Intn(6) {
	case 4, 5: // satisfiable-ish 3-SAT, many short rounds: units are learned under one round's assumptions and must not leak into the next
		c.N = r.Range(6, 12)
		c.CNF = gen.Random3SAT(r, c.N, 3, r.Range(300, 430))
		long = true
	case 0: // with unit clauses and parse-time propagated facts
		c.CNF, c.N = gen.RandomCNF(r, gen.CNFOpts{MinVars: 2, MaxVars: 10, MaxLen: 4, Weird: true})
		c.CNF = append(c.CNF, []int{r.Lit(c.N)})
	case 1:
		c.N = r.Range(5, 11)
		c.CNF = gen.Random3SAT(r, c.N, 3, r.Range(250, 450))
	case 2: // unsatisfiable or nearly so
		c.N = r.Range(4, 9)
		c.CNF = gen.Random3SAT(r, c.N, 3, r.Range(450, 700))
	default:
		c.CNF, c.N = gen.RandomCNF(r, gen.CNFOpts{MinVars: 2, MaxVars: 10, MaxLen: 4, Weird: r.Bool()})
	}
	if mv := MaxVarCNF(c.CNF); mv > c.N {
		c.N = mv
	}
	nv := c.N
	if c.Front == "slice" {
		nv = MaxVarCNF(c.CNF) // ParseSlice only knows the variables that are used
	}
	if nv == 0 {
		nv, c.N, c.CNF = 1, 1, append(c.CNF, []int{1, -1})
	}
	var prev []int
	nbRounds := r.Range(1, 6)
	if long {
		nbRounds = r.Range(3, 9)
	}
	for k := nbRounds; k > 0; k-- {
		var l []int
		shape := r.Intn(8)
		if long && shape < 5 {
			shape = 7
		}
		switch shape {
		case 0: // empty list
		case 1: // same as previous round
			l = append([]int{}, prev...)
		case 2: // contradicts the previous round
			for _, x := range prev {
				l = append(l, -x)
			}
			if len(l) > 2 {
				l = l[:2]
			}
		case 3: // x and not x
			x := r.Lit(nv)
			l = []int{x, r.Lit(nv), -x}
		case 4: // repeated literal
			x := r.Lit(nv)
			l = []int{x, x}
		default:
			l = r.DistinctLits(nv, r.Range(1, min(4, nv)))
			if long {
				l = r.DistinctLits(nv, r.Range(1, 2))
			}
		}
		c.Rounds = append(c.Rounds, l)
		prev = l
	}
	return c
}

func c10Run(ci interface{}, rec *Rec) {
	c := ci.(*C10Case)
	n := c.N
	scen := fmt.Sprintf("%s+Assume/limit=%d", c.Front, c.Limit)
	SetLearnedLimit(c.Limit, true)
	cc := &C01Case{N: c.N, CNF: c.CNF}
	pb, declared := c01Build(cc, c.Front, c.CNF, c.N, rec, scen)
	if pb == nil {
		return
	}
	base := ref.CNFToProblem(c.CNF, n)
	var s *solver.Solver
	if rec.Guard(scen+"/New", func() { s = solver.New(pb) }) {
		return
	}
	if c.PlainFirst {
		var st solver.Status
		if rec.Guard(scen+"/Solve(plain)", func() { st = s.Solve() }) {
			return
		}
		if exp := base.Sat(n); (st == solver.Sat) != exp || (st != solver.Sat && st != solver.Unsat) {
			rec.Viol(scen+"/Solve(plain)", "wrong-verdict", StatusName(st), "plain Solve answered %s, reference satisfiable=%v", StatusName(st), exp)
		}
	}
	for i, round := range c.Rounds {
		p := base.Clone()
		for _, l := range round {
			p.Cons = append(p.Cons, ref.Cl(l))
		}
		expSat := p.Sat(n)
		var ast, st solver.Status
		step := scen + "/Assume"
		if rec.Guard(step, func() { ast = s.Assume(ToLits(round)) }) {
			return
		}
		if ast == solver.Unsat && expSat {
			rec.Viol(step, "wrong-verdict", "Assume-Unsat-for-sat", "round #%d %v: Assume returned Unsat but formula and assumptions are satisfiable", i, round)
			return
		}
		step = scen + "/Solve"
		if rec.Guard(step, func() { st = s.Solve() }) {
			return
		}
		rec.Count("rounds", 1)
		switch st {
		case solver.Sat:
			rec.Count("sat_rounds", 1)
			if !expSat {
				rec.Viol(step, "wrong-verdict", "Sat-for-unsat", "round #%d %v: Solve answered Sat but formula and assumptions have no model", i, round)
				return
			}
			var model []bool
			if rec.Guard(step+"/Model", func() { model = s.Model() }) {
				return
			}
			if len(model) != declared {
				rec.Viol(step, "model-length", "Model", "round #%d: model has %d values, %d variables declared", i, len(model), declared)
			}
			if bad := p.FirstViolated(ref.BoolsToAssign(model)); bad >= 0 {
				what := "a clause of the formula"
				if bad >= len(c.CNF) {
					what = "an assumption of this round"
				}
				rec.Viol(step, "bad-model", what, "round #%d %v: model %v violates %s: %s", i, round, model, what, p.Cons[bad])
				return
			}
		case solver.Unsat:
			rec.Count("unsat_rounds", 1)
			if expSat {
				rec.Viol(step, "wrong-verdict", "Unsat-for-sat", "round #%d %v (previous rounds %v): Solve answered Unsat but formula and this round's assumptions are satisfiable", i, round, c.Rounds[:i])
				return
			}
		default:
			rec.Viol(step, "wrong-verdict", "Indet", "round #%d: Solve answered %s", i, StatusName(st))
			return
		}
	}
	if len(c.Rounds) >= 2 {
		rec.Interesting(CanonCNF(c.CNF, c.N) + fmt.Sprint(c.Rounds, c.PlainFirst))
	}
}

func init() {
	register(&Prop{
		ID:       "C10",
		NumCases: func(tier string) int { return c10Counts[tier] },
		Gen:      c10Gen,
		New:      func() interface{} { return &C10Case{} },
		Run:      c10Run,
		Setup:    func(string) { InstallSeqHooks() },
		Rule: "base CNF problems over 2..11 variables (with unit clauses and parse-time facts, satisfiable 3-SAT, over-constrained 3-SAT, mixed; through ParseSlice / ParseSliceNb / ParseCNF) x 1..9 rounds Assume(L); Solve with L empty, random, repeated, equal to or contradicting the previous round, containing x and not x; optionally a plain Solve first; learned limit default or 3; each round is compared with the truth table of formula AND this round's assumptions only, and Sat models are evaluated against every clause as written and every assumption. " +
			"non-trivial = >= 2 rounds; distinct by (formula, rounds)",
		Assumptions: []string{"reference truth table of internal/ref", "assumed literals only mention variables the problem declares"},
		Floors: map[string]map[string]int64{
			"quick":    {"sat_rounds": 20000, "unsat_rounds": 20000},
			"thorough": {"sat_rounds": 400000, "unsat_rounds": 400000},
		},
	})
}
