package props

import (
	"fmt"
	"strings"

	"github.com/crillab/gophersat/solver"

	"verif/internal/gen"
	"verif/internal/ref"
)

// C01 — CNF satisfiability verdicts and models are correct.

// C01Case is one CNF with a front-end and a solver configuration.
type C01Case struct {
	Mode  string  `json:"mode"` // exh | tt | big
	N     int     `json:"n"`    // declared number of variables
	CNF   [][]int `json:"cnf"`
	Front string  `json:"front"` // slice | slicenb | dimacs | all
	Cert  bool    `json:"cert"`
	Limit int     `json:"limit"`         // learned-clause limit, 0 = default
	Meta  bool    `json:"meta"`          // also run metamorphic variants
	Rep   bool    `json:"rep,omitempty"` // clauses repeated in the multiset
}

// exhaustive spaces: sequences of <= M clauses, each a sequence of <= L literals over n variables
type exhSpace struct{ n, l, m int }

func (e exhSpace) clauseOptions() int {
	opts, p := 0, 1
	for i := 0; i <= e.l; i++ {
		opts += p
		p *= 2 * e.n
	}
	return opts
}

func (e exhSpace) size() int {
	c := e.clauseOptions()
	tot, p := 0, 1
	for i := 0; i <= e.m; i++ {
		tot += p
		p *= c
	}
	return tot
}

func (e exhSpace) decodeClause(k int) []int {
	// k in [0, clauseOptions): length first
	p := 1
	for ln := 0; ln <= e.l; ln++ {
		if k < p {
			c := make([]int, ln)
			for i := 0; i < ln; i++ {
				d := k % (2 * e.n)
				k /= 2 * e.n
				v := d/2 + 1
				if d%2 == 1 {
					v = -v
				}
				c[i] = v
			}
			return c
		}
		k -= p
		p *= 2 * e.n
	}
	panic("bad clause index")
}

func (e exhSpace) decode(k int) [][]int {
	c := e.clauseOptions()
	p := 1
	for m := 0; m <= e.m; m++ {
		if k < p {
			cnf := make([][]int, m)
			for i := 0; i < m; i++ {
				cnf[i] = e.decodeClause(k % c)
				k /= c
			}
			return cnf
		}
		k -= p
		p *= c
	}
	panic("bad formula index")
}

var c01Exh = map[string][]exhSpace{
	"quick":    {{2, 2, 4}, {3, 2, 3}},
	"thorough": {{2, 2, 4}, {3, 2, 3}, {2, 3, 3}, {4, 2, 3}},
}

var c01Counts = map[string][3]int{ // sampled-exhaustive stride handled separately; tt, big
	"quick":    {0, 60_000, 800},
	"thorough": {0, 1_500_000, 20_000},
}

func c01ExhTotal(tier string) int {
	t := 0
	for _, e := range c01Exh[tier] {
		t += e.size()
	}
	return t
}

func c01Gen(r *gen.Rng, tier string, idx int) interface{} {
	for _, e := range c01Exh[tier] {
		if idx < e.size() {
			return &C01Case{Mode: "exh", N: e.n, CNF: e.decode(idx), Front: "all"}
		}
		idx -= e.size()
	}
	cnt := c01Counts[tier]
	c := &C01Case{}
	fronts := []string{"slice", "slicenb", "dimacs"}
	c.Front = fronts[r.Intn(3)]
	c.Cert = r.Chance(1, 3)
	c.Limit = []int{0, 0, 3, 3, 20}[r.Intn(5)]
	if idx < cnt[1] {
		c.Mode = "tt"
		c.CNF, c.N = gen.RandomCNF(r, gen.CNFOpts{MinVars: 1, MaxVars: 14, MaxLen: 5, Weird: true})
		if r.Chance(1, 4) { // denser 3-SAT near threshold on 8..14 variables: conflicts and learned clauses
			c.N = r.Range(8, 14)
			c.CNF = gen.Random3SAT(r, c.N, 3, r.Range(380, 520))
		}
		c.Meta = r.Chance(1, 20)
		if r.Chance(1, 5) { // a clause multiset: the same unit clause 3 to 5 times, other clauses repeated
			c.CNF = gen.RepeatClauses(r, c.CNF, c.N)
			c.Rep = true
		}
		return c
	}
	c.Mode = "big"
	c.N = r.Range(30, 70)
	if r.Chance(1, 3) { // harder: hundreds to thousands of conflicts, several restarts
		c.N = r.Range(70, 110)
	}
	if r.Chance(1, 12) {
		c.CNF, c.N = gen.Ladder(r, r.Range(10, 160))
	} else if r.Chance(1, 6) {
		p := r.Range(4, 6)
		c.CNF, c.N = gen.Pigeonhole(p+1, p)
		if r.Bool() { // satisfiable variant
			c.CNF, c.N = gen.Pigeonhole(p, p)
		}
	} else {
		c.CNF = gen.Random3SAT(r, c.N, 3, r.Range(380, 460))
	}
	c.Limit = []int{0, 3, 20, 50}[r.Intn(4)]
	if r.Chance(1, 6) {
		c.CNF = gen.RepeatClauses(r, c.CNF, c.N)
		c.Rep = true
	}
	return c
}

// c01Expected decides the reference verdict. known is false when it must be validated per answer.
func c01Expected(c *C01Case) (sat, known bool) {
	n := c.N
	if mv := MaxVarCNF(c.CNF); mv > n {
		n = mv
	}
	if n <= 16 {
		return ref.CNFToProblem(c.CNF, n).Sat(n), true
	}
	return false, false
}

func c01Build(c *C01Case, front string, cnf [][]int, n int, rec *Rec, scen string) (pb *solver.Problem, declared int) {
	rec.Guard(scen+"/parse", func() {
		switch front {
		case "slice":
			pb = solver.ParseSlice(CloneCNF(cnf))
			declared = MaxVarCNF(cnf)
		case "slicenb":
			pb = solver.ParseSliceNb(CloneCNF(cnf), n)
			declared = n
			if mv := MaxVarCNF(cnf); mv > n {
				declared = mv
			}
		case "dimacs":
			var err error
			pb, err = solver.ParseCNF(strings.NewReader(RenderDIMACS(cnf, n)))
			if err != nil {
				rec.Viol(scen+"/parse", "parse-error", "ParseCNF", "ParseCNF failed on a well-formed text: %v", err)
				pb = nil
			}
			declared = n
		}
	})
	return pb, declared
}

// c01Solve runs one front-end/configuration and judges the answer. It returns the status.
func c01Solve(c *C01Case, front string, cnf [][]int, n int, cert bool, limit int, expSat, known bool, rec *Rec) (st solver.Status, ok bool) {
	scen := fmt.Sprintf("%s+Solve/cert=%v/limit=%d", front, cert, limit)
	SetLearnedLimit(limit, limit > 0) // sticky: reduction recurs every `limit` conflicts
	pb, declared := c01Build(c, front, cnf, n, rec, scen)
	if pb == nil {
		return 0, false
	}
	if known {
		if pb.Status == solver.Unsat && expSat {
			rec.Viol(scen, "wrong-verdict", "Problem.Status", "problem status is Unsat after parsing but the formula is satisfiable")
		}
		if pb.Status == solver.Sat && !expSat {
			rec.Viol(scen, "wrong-verdict", "Problem.Status", "problem status is Sat after parsing but the formula is unsatisfiable")
		}
	}
	var s *solver.Solver
	var certLines []string
	if rec.Guard(scen, func() {
		s = solver.New(pb)
		if cert {
			s.Certified = true
			s.CertChan = make(chan string, 64)
			done := make(chan struct{})
			go func() {
				for l := range s.CertChan {
					certLines = append(certLines, l)
				}
				close(done)
			}()
			defer func() { close(s.CertChan); <-done }()
		}
		st = s.Solve()
	}) {
		return 0, false
	}
	rec.Count("solves", 1)
	rec.Count("conflicts", s.Stats.NbConflicts)
	rec.Max("max_steps_in_one_solve", int(s.VerifSteps()))
	rec.Count("restarts", s.Stats.NbRestarts)
	rec.Count("learned", s.Stats.NbLearned)
	rec.Count("deleted", s.Stats.NbDeleted)
	if s.Stats.NbDeleted > 0 {
		rec.Count("cases_with_deletion", 1)
	}
	if s.Stats.NbRestarts > 0 {
		rec.Count("cases_with_restart", 1)
	}
	switch st {
	case solver.Sat:
		rec.Count("sat", 1)
		if known && !expSat {
			rec.Viol(scen, "wrong-verdict", "Sat-for-unsat", "Solve answered Sat but the formula has no model")
		}
		var model []bool
		if rec.Guard(scen+"/Model", func() { model = s.Model() }) {
			return st, true
		}
		if len(model) != declared {
			rec.Viol(scen, "model-length", "Model", "model has %d values, %d variables are declared", len(model), declared)
		}
		if i := ref.FirstFalsified(cnf, model); i >= 0 {
			rec.Viol(scen, "bad-model", "Model", "model %v falsifies clause #%d %v as written", model, i, cnf[i])
		}
	case solver.Unsat:
		rec.Count("unsat", 1)
		if known && expSat {
			rec.Viol(scen, "wrong-verdict", "Unsat-for-sat", "Solve answered Unsat but the formula has a model")
		}
		if !known { // validate independently
			if n <= 50 {
				sat, _, okd := ref.DPLL(cnf, n, nil, oracleBudget(40_000_000))
				if !okd {
					rec.Inconclusive("DPLL budget exhausted on n=%d", n)
				} else if sat {
					rec.Viol(scen, "wrong-verdict", "Unsat-for-sat", "Solve answered Unsat but the independent DPLL finds a model")
				} else {
					rec.Count("unsat_confirmed_dpll", 1)
				}
			} else if cert {
				if rupRefutes(cnf, n, certLines) {
					rec.Count("unsat_confirmed_rup", 1)
				} else {
					// an unusable certificate is C06's business, not a wrong verdict: decide the formula itself
					sat, _, okd := ref.DPLL(cnf, n, nil, oracleBudget(40_000_000))
					switch {
					case !okd:
						rec.Count("unsat_unconfirmed", 1)
					case sat:
						rec.Viol(scen, "wrong-verdict", "Unsat-for-sat", "Solve answered Unsat (and its certificate does not replay) but the independent DPLL finds a model")
					default:
						rec.Count("unsat_confirmed_dpll_after_bad_certificate", 1)
					}
				}
			} else {
				rec.Count("unsat_unconfirmed", 1)
			}
		}
	default:
		rec.Viol(scen, "wrong-verdict", "Indet", "Solve answered %s", StatusName(st))
	}
	if s.Stats.NbDecisions > 0 && s.Stats.NbConflicts > 0 {
		rec.Interesting(CanonCNF(cnf, n))
	}
	return st, true
}

// rupRefutes replays certificate lines against cnf with the independent checker.
func rupRefutes(cnf [][]int, n int, lines []string) bool {
	chk := ref.NewRUP(cnf, n)
	for _, l := range lines {
		if f := strings.Fields(l); len(f) == 0 || !isIntToken(f[0]) {
			continue // comment-like lines are ignored, as certificate checkers do (C06 judges the certificate itself)
		}
		cl, ok := parseCertLine(l)
		if !ok {
			return false
		}
		if !chk.Check(cl) {
			return false
		}
		if len(cl) == 0 {
			return true
		}
		chk.Add(cl)
	}
	return chk.Check(nil)
}

func parseCertLine(l string) ([]int, bool) {
	var cl []int
	fields := strings.Fields(l)
	if len(fields) == 0 || fields[len(fields)-1] != "0" {
		return nil, false
	}
	for _, f := range fields[:len(fields)-1] {
		var v int
		if _, err := fmt.Sscanf(f, "%d", &v); err != nil || v == 0 {
			return nil, false
		}
		cl = append(cl, v)
	}
	return cl, true
}

func c01Run(ci interface{}, rec *Rec) {
	c := ci.(*C01Case)
	expSat, known := c01Expected(c)
	fronts := []string{c.Front}
	if c.Front == "all" {
		fronts = []string{"slice", "slicenb", "dimacs"}
	}
	var first solver.Status
	for i, f := range fronts {
		cert := c.Cert
		if !known && c.N > 50 {
			cert = true // the certificate is the only independent confirmation of Unsat
		}
		st, ok := c01Solve(c, f, c.CNF, c.N, cert, c.Limit, expSat, known, rec)
		if ok && i == 0 {
			first = st
		}
		if ok && i > 0 && st != first && first != 0 {
			rec.Viol("frontends", "wrong-verdict", "disagree", "front-ends disagree: %s vs %s", StatusName(first), StatusName(st))
		}
	}
	if c.Rep {
		rec.Count("cases_with_repeated_clauses", 1)
	}
	if c.Mode == "exh" {
		rec.Count("exhaustive_cases", 1)
		if len(c.CNF) >= 2 { // non-trivial by construction for the enumerated space
			rec.Interesting(CanonCNF(c.CNF, c.N))
		}
	}
	if c.Meta {
		r := gen.New(gen.HashString(CanonCNF(c.CNF, c.N)))
		// permuted clause order and literal order
		cnf2 := CloneCNF(c.CNF)
		p := r.Perm(len(cnf2))
		cnf3 := make([][]int, len(cnf2))
		for i, j := range p {
			cl := cnf2[j]
			q := r.Perm(len(cl))
			cl2 := make([]int, len(cl))
			for a, b := range q {
				cl2[a] = cl[b]
			}
			cnf3[i] = cl2
		}
		c01Solve(c, "slicenb", cnf3, c.N, false, c.Limit, expSat, known, rec)
		// renamed variables and flipped polarities
		ren := r.Perm(c.N)
		flip := make([]bool, c.N)
		for i := range flip {
			flip[i] = r.Bool()
		}
		cnf4 := make([][]int, len(c.CNF))
		for i, cl := range c.CNF {
			cnf4[i] = make([]int, len(cl))
			for j, l := range cl {
				v := l
				if v < 0 {
					v = -v
				}
				if v > c.N {
					cnf4[i][j] = l
					continue
				}
				nv := ren[v-1] + 1
				if (l < 0) != flip[v-1] {
					nv = -nv
				}
				cnf4[i][j] = nv
			}
		}
		c01Solve(c, "dimacs", cnf4, c.N, false, c.Limit, expSat, known, rec)
		rec.Count("metamorphic_cases", 1)
	}
}

func init() {
	register(&Prop{
		ID: "C01",
		NumCases: func(tier string) int {
			c := c01Counts[tier]
			return c01ExhTotal(tier) + c[1] + c[2]
		},
		Gen:   c01Gen,
		New:   func() interface{} { return &C01Case{} },
		Run:   c01Run,
		Setup: func(string) { InstallSeqHooks() },
		Rule: "exhaustive: every sequence of <=M clauses of <=L literals over n variables for the listed (n,L,M) (literal order, duplicates, tautologies, empty clause all enumerated), each through ParseSlice, ParseSliceNb and ParseCNF; " +
			"random: n<=14 judged by truth table, n=30..70 (3-SAT near threshold, pigeonhole) validated per answer (model evaluation / independent DPLL / RUP replay of the certificate); x {certificate on/off} x {learned limit default,3 (sticky),20}. " +
			"non-trivial = the solver made >=1 decision and >=1 conflict (or, in the enumerated spaces, the formula has >=2 clauses); distinct by (n, clause list)",
		Assumptions: []string{
			"reference truth table / DPLL / RUP checker of internal/ref are correct (cross-checked by vcheck selftest)",
			"termination is decided as a bound of 5e6 loop iterations per solver counted by the verifStep hook",
			"lowering the learned-clause limit through the verifNew hook only changes when reduction happens, not what it may do",
		},
		Floors: map[string]map[string]int64{
			"quick":    {"cases_with_deletion": 20, "cases_with_restart": 3, "conflicts": 10000},
			"thorough": {"cases_with_deletion": 1000, "cases_with_restart": 100, "conflicts": 500000},
		},
	})
}
