package props

import (
	"fmt"
	"reflect"
	"sort"
	"strings"

	"github.com/crillab/gophersat/explain"
	"github.com/crillab/gophersat/solver"

	"verif/internal/gen"
	"verif/internal/ref"
)

// C07 — extracted MUSes are unsatisfiable, minimal sub-multisets of the input.

// C07Case is a CNF for MUS extraction.
type C07Case struct {
	N      int     `json:"n"`
	CNF    [][]int `json:"cnf"`
	Second int     `json:"second"`         // method called a second time on the same problem value
	Flat   bool    `json:"flat,omitempty"` // clauses are sub-slices of one backing array (set through the exported fields after parsing the header)
}

var c07Counts = map[string]int{"quick": 6_000, "thorough": 150_000}

var musMethods = []string{"MUS", "MUSDeletion", "MUSInsertion", "MUSMaxSat"}

func c07Gen(r *gen.Rng, tier string, idx int) interface{} {
	c := &C07Case{Second: r.Intn(4)}
	c.CNF, c.N = gen.RandomMUSInput(r, 8, 24)
	c.Flat = r.Chance(1, 4)
	for _, cl := range c.CNF {
		if len(cl) < 2 { // ParseCNF keeps private state for unit clauses: those inputs only go through the parser
			c.Flat = false
		}
	}
	return c
}

// explainFlat builds the problem the way a caller with a compact clause store would: the header is parsed (which
// initialises the private fields), then the clauses are set through the exported fields as sub-slices of one flat
// array, so that each clause's spare capacity overlaps the following clauses.
func explainFlat(cnf [][]int, n int, rec *Rec, scen string) (pb *explain.Problem) {
	rec.Guard(scen+"/parse", func() {
		var err error
		pb, err = explain.ParseCNF(strings.NewReader(fmt.Sprintf("p cnf %d 0\n", n)))
		if err != nil {
			rec.Viol(scen+"/parse", "parse-error", "explain.ParseCNF", "explain.ParseCNF failed on a header-only text: %v", err)
			pb = nil
			return
		}
		var flat []int
		for _, cl := range cnf {
			flat = append(flat, cl...)
		}
		pos := 0
		for _, cl := range cnf {
			pb.Clauses = append(pb.Clauses, flat[pos:pos+len(cl)])
			pos += len(cl)
		}
		pb.NbClauses = len(pb.Clauses)
	})
	return pb
}

func explainParse(cnf [][]int, n int, rec *Rec, scen string) (pb *explain.Problem) {
	rec.Guard(scen+"/parse", func() {
		var err error
		pb, err = explain.ParseCNF(strings.NewReader(RenderDIMACS(cnf, n)))
		if err != nil {
			rec.Viol(scen+"/parse", "parse-error", "explain.ParseCNF", "explain.ParseCNF failed on a well-formed text: %v", err)
			pb = nil
		}
	})
	return pb
}

func callMUS(pb *explain.Problem, method string) (*explain.Problem, error) {
	switch method {
	case "MUS":
		return pb.MUS()
	case "MUSDeletion":
		return pb.MUSDeletion()
	case "MUSInsertion":
		return pb.MUSInsertion()
	case "MUSMaxSat":
		return pb.MUSMaxSat()
	}
	panic("unknown method")
}

func clauseKey(c []int) string {
	return fmt.Sprint(ref.SortedCopy(c))
}

// subMultiset tells whether every clause of sub occurs in full at least as often (clauses compared as sorted literal lists).
func subMultiset(sub, full [][]int) (ok bool, witness []int) {
	cnt := map[string]int{}
	for _, c := range full {
		cnt[clauseKey(c)]++
	}
	for _, c := range sub {
		k := clauseKey(c)
		cnt[k]--
		if cnt[k] < 0 {
			return false, c
		}
	}
	return true, nil
}

// checkSubset judges an extracted subset. minimal requests the minimality check.
func checkSubset(rec *Rec, scen string, input [][]int, n int, res *explain.Problem, minimal bool) {
	if res == nil {
		rec.Viol(scen, "not-unsat", "nil-result", "no error but a nil result")
		return
	}
	if res.NbClauses != len(res.Clauses) {
		rec.Viol(scen, "wrong-count", "NbClauses", "result has NbClauses=%d but %d clauses", res.NbClauses, len(res.Clauses))
	}
	if ok, w := subMultiset(res.Clauses, input); !ok {
		rec.Viol(scen, "not-submultiset", "Clauses", "result clause %v does not occur (that often) in the input; result %v", w, res.Clauses)
		return
	}
	m := n
	if mv := MaxVarCNF(res.Clauses); mv > m {
		m = mv
	}
	if ref.CNFToProblem(res.Clauses, m).Sat(m) {
		rec.Viol(scen, "not-unsat", "Clauses", "result %v is satisfiable", res.Clauses)
		return
	}
	if minimal {
		for i := range res.Clauses {
			rest := make([][]int, 0, len(res.Clauses)-1)
			rest = append(rest, res.Clauses[:i]...)
			rest = append(rest, res.Clauses[i+1:]...)
			if !ref.CNFToProblem(rest, m).Sat(m) {
				rec.Viol(scen, "not-minimal", "Clauses", "result %v stays unsatisfiable without clause #%d %v", res.Clauses, i, res.Clauses[i])
				return
			}
		}
	}
}

type pbSnapshot struct {
	Clauses   [][]int
	NbVars    int
	NbClauses int
}

func snapshot(pb *explain.Problem) pbSnapshot {
	return pbSnapshot{Clauses: ref.CloneCNF(pb.Clauses), NbVars: pb.NbVars, NbClauses: pb.NbClauses}
}

func sameSnapshot(a pbSnapshot, pb *explain.Problem) string {
	if a.NbVars != pb.NbVars {
		return fmt.Sprintf("NbVars %d -> %d", a.NbVars, pb.NbVars)
	}
	if a.NbClauses != pb.NbClauses {
		return fmt.Sprintf("NbClauses %d -> %d", a.NbClauses, pb.NbClauses)
	}
	if len(a.Clauses) != len(pb.Clauses) {
		return fmt.Sprintf("len(Clauses) %d -> %d", len(a.Clauses), len(pb.Clauses))
	}
	for i := range a.Clauses {
		if !reflect.DeepEqual(a.Clauses[i], pb.Clauses[i]) && !(len(a.Clauses[i]) == 0 && len(pb.Clauses[i]) == 0) {
			return fmt.Sprintf("clause #%d %v -> %v", i, a.Clauses[i], pb.Clauses[i])
		}
	}
	return ""
}

func c07Run(ci interface{}, rec *Rec) {
	c := ci.(*C07Case)
	sat := ref.CNFToProblem(c.CNF, c.N).Sat(c.N)
	SetLearnedLimit(0, false)
	if sat {
		rec.Count("satisfiable_inputs", 1)
	} else {
		rec.Count("unsatisfiable_inputs", 1)
	}
	one := func(pb *explain.Problem, method, scen string) {
		snap := snapshot(pb)
		solver.VerifResetGlobalSteps()
		var res *explain.Problem
		var err error
		if rec.Guard(scen, func() { res, err = callMUS(pb, method) }) {
			return
		}
		rec.Count("extractions", 1)
		if d := sameSnapshot(snap, pb); d != "" {
			rec.Viol(scen, "caller-mutated", "receiver", "the caller's problem changed: %s", d)
		}
		if sat {
			if err == nil {
				rec.Viol(scen, "wrong-verdict", "no-error-on-sat", "satisfiable input but no error; result %v", res)
			}
			return
		}
		if err != nil {
			rec.Viol(scen, "wrong-verdict", "error-on-unsat", "unsatisfiable input but error %q", err)
			return
		}
		checkSubset(rec, scen, c.CNF, c.N, res, true)
		if res != nil {
			rec.Count("mus_clauses", len(res.Clauses))
		}
	}
	if c.Flat {
		rec.Count("inputs_with_clauses_in_one_flat_array", 1)
	}
	for _, m := range musMethods {
		pb := explainParse(c.CNF, c.N, rec, m)
		if c.Flat {
			pb = explainFlat(c.CNF, c.N, rec, m)
		}
		if pb == nil {
			return
		}
		scen := m
		if c.Flat {
			scen = m + "/flat-array"
		}
		one(pb, m, scen)
		if musMethods[c.Second] != "" && m == musMethods[(c.Second+1)%4] {
			// a second extraction on the same problem value
			m2 := musMethods[c.Second]
			one(pb, m2, scen+"+"+m2)
		}
	}
	if !sat && len(c.CNF) >= 3 {
		k := make([]string, len(c.CNF))
		for i, cl := range c.CNF {
			k[i] = clauseKey(cl)
		}
		sort.Strings(k)
		rec.Interesting(fmt.Sprint(c.N, k))
	}
}

func init() {
	register(&Prop{
		ID:       "C07",
		NumCases: func(tier string) int { return c07Counts[tier] },
		Gen:      c07Gen,
		New:      func() interface{} { return &C07Case{} },
		Run:      c07Run,
		Setup: func(string) {
			InstallSeqHooks()
			solver.VerifHooks.GlobalBudget = 20_000 // extraction rounds, checker passes and simplification rounds of one call on <= 24 clauses
		},
		Rule: "random CNF problems over 1..8 variables with at most 24 clauses read by explain.ParseCNF: sparse (mostly satisfiable), dense, planted cores (conflicting units, all sign patterns over 2 or 3 variables, implication chains closed by units, pigeonhole 3->2) with noise, repeated clauses, shuffled; each of MUS, MUSDeletion, MUSInsertion, MUSMaxSat on a freshly parsed problem plus one second extraction on an already used problem value; judged by truth table: error iff satisfiable, result is a sub-multiset, unsatisfiable, every single-clause removal satisfiable, NbClauses=len(Clauses), receiver deep-equal to a snapshot. " +
			"non-trivial = unsatisfiable input with >= 3 clauses; distinct by (n, sorted clause multiset)",
		Assumptions: []string{"reference truth table of internal/ref", "clauses are compared as sorted literal lists with multiplicity"},
		Floors: map[string]map[string]int64{
			"quick":    {"unsatisfiable_inputs": 1500, "satisfiable_inputs": 500},
			"thorough": {"unsatisfiable_inputs": 40000, "satisfiable_inputs": 12000},
		},
	})
}
