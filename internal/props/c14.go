package props

import (
	"fmt"
	"os"

	"github.com/crillab/gophersat/solver"

	"verif/internal/gen"
	"verif/internal/ref"
)

// C14 — the cutting-planes strategy never changes an answer.

// C14Case is a problem solved with and without the cutting-planes strategy.
type C14Case struct {
	Domain string       `json:"domain"` // cnf | card | pb
	P      *ref.Problem `json:"p"`
	M      *gen.MaxSat  `json:"m,omitempty"` // domain relaxed: P is the relaxed form of M, which gives the reference optimum
	AMO    bool         `json:"amo"`         // run DetectAtMostOne first
	Focus  bool         `json:"focus,omitempty"`
	Limit  int          `json:"limit,omitempty"`
}

var c14Counts = map[string]int{"quick": 30_000, "thorough": 600_000}

// c14Focus: after the mixed cases come this many dense cardinality problems (6..10 variables, n..2n constraints of
// degree around half their length): cheap, and the shape on which a learned constraint that yields top-level units
// and a remainder is most often met.
var c14Focus = map[string]int{"quick": 90_000, "thorough": 1_800_000}

func c14Gen(r *gen.Rng, tier string, idx int) interface{} {
	if idx >= c14Counts[tier] {
		c := &C14Case{Domain: "card", AMO: r.Chance(1, 4), Limit: []int{0, 0, 3}[r.Intn(3)]}
		c.P = gen.RandomPBProblem(r, gen.PBOpts{MinVars: 6, MaxVars: 10, CardOnly: true, Hard: true})
		c.P.N = max(c.P.N, c.P.MaxVar())
		if r.Chance(1, 4) {
			c.P.HasCost = true
			c.P.CostLits, c.P.CostW = gen.RandomCost(r, c.P.MaxVar(), 4, false, false)
		}
		c.Focus = true
		return c
	}
	c := &C14Case{Domain: []string{"cnf", "cnf", "card", "pb"}[r.Intn(4)], AMO: r.Chance(1, 3), Limit: []int{0, 0, 3}[r.Intn(3)]}
	big := r.Chance(1, 6) // larger instances: up to 14 variables, more constraints, larger coefficients
	if r.Chance(1, 60) {  // relaxed MaxSAT with many soft clauses: a long optimisation (hundreds to thousands of conflicts, restarts in the middle of it)
		c.Domain = "relaxed"
		c.AMO = false
		nv := r.Range(10, 14)
		m := &gen.MaxSat{N: nv}
		for k := r.Range(1, 3); k > 0; k-- { // hard unit clauses ...
			m.Hard = append(m.Hard, ref.Cl(r.Lit(nv)))
		}
		for k := r.Intn(4); k > 0; k-- {
			m.Hard = append(m.Hard, ref.Cl(r.DistinctLits(nv, r.Range(2, 3))...))
		}
		for k := r.Range(40, 80); k > 0; k-- {
			m.Soft = append(m.Soft, ref.Cl(r.DistinctLits(nv, r.Range(1, 3))...))
			m.W = append(m.W, r.Range(1, 6))
		}
		for _, h := range m.Hard[:1] { // ... and a soft clause contradicting one of them: its relaxation variable becomes a top-level fact
			m.Soft = append(m.Soft, ref.Cl(-h.Lits[0]))
			m.W = append(m.W, r.Range(1, 6))
		}
		c.M = m
		p := &ref.Problem{N: nv + len(m.Soft), HasCost: true}
		for _, h := range m.Hard {
			p.Cons = append(p.Cons, h.Clone())
		}
		for i, sc := range m.Soft {
			relax := nv + i + 1
			p.Cons = append(p.Cons, ref.Cl(append(append([]int{}, sc.Lits...), relax)...))
			p.CostLits = append(p.CostLits, relax)
			p.CostW = append(p.CostW, m.W[i])
		}
		c.P = p
		return c
	}
	if r.Chance(1, 25) { // larger pure CNF under cutting planes: hundreds to thousands of conflicts, Luby restarts, PB clause deletion
		c.Domain = "bigcnf"
		c.AMO = false
		var cnf [][]int
		var n int
		if r.Chance(1, 3) {
			h := r.Range(4, 6)
			cnf, n = gen.Pigeonhole(h+1, h)
		} else {
			n = r.Range(30, 50)
			cnf = gen.Random3SAT(r, n, 3, r.Range(360, 470))
		}
		if r.Chance(1, 5) { // planted-satisfiable 3-CNF on 80..100 variables with a full-length objective: hundreds of conflicts spread over many improvement steps
			n = r.Range(80, 100)
			hidden := make([]bool, n+1)
			for v := 1; v <= n; v++ {
				hidden[v] = r.Bool()
			}
			cnf = nil
			for len(cnf) < n*r.Range(400, 420)/100 {
				cl := r.DistinctLits(n, 3)
				for _, l := range cl {
					if (l > 0) == hidden[abs(l)] {
						cnf = append(cnf, cl)
						break
					}
				}
			}
			c.P = ref.CNFToProblem(cnf, n)
			c.P.HasCost = true
			for v := 1; v <= n; v++ {
				c.P.CostLits = append(c.P.CostLits, v)
				c.P.CostW = append(c.P.CostW, 1)
			}
			for k := 0; k < 3; k++ { // unit clauses on fresh variables that the objective would like to falsify
				c.P.N++
				c.P.Cons = append(c.P.Cons, ref.Cl(c.P.N))
				c.P.CostLits = append(c.P.CostLits, c.P.N)
				c.P.CostW = append(c.P.CostW, r.Range(2, 6))
			}
			c.Domain = "bigopt"
			return c
		}
		c.P = ref.CNFToProblem(cnf, n)
		if r.Bool() { // unit clauses whose literals the objective would like to falsify: the optimum depends on top-level facts surviving restarts
			c.P.HasCost = true
			for k := r.Range(2, 5); k > 0; k-- {
				l := r.Lit(n)
				c.P.Cons = append(c.P.Cons, ref.Cl(l))
				c.P.CostLits = append(c.P.CostLits, l)
				c.P.CostW = append(c.P.CostW, r.Range(1, 9))
			}
			seen := map[int]bool{}
			var lits, ws []int
			for i, l := range c.P.CostLits { // each variable at most once in the cost function
				v := l
				if v < 0 {
					v = -v
				}
				if !seen[v] {
					seen[v] = true
					lits, ws = append(lits, l), append(ws, c.P.CostW[i])
				}
			}
			full := r.Bool() // a full-length objective makes the optimisation long: hundreds of conflicts spread over many Solve calls
			for v := 1; v <= n; v++ {
				if !seen[v] && (full || r.Chance(1, 8)) {
					seen[v] = true
					l := v
					if r.Chance(1, 4) {
						l = -v
					}
					lits, ws = append(lits, l), append(ws, r.Range(1, 9))
				}
			}
			c.P.CostLits, c.P.CostW = lits, ws
		}
		return c
	}
	if r.Chance(1, 20) { // pigeonhole with cardinality constraints, beyond the truth table: the verdict is known by construction
		c.Domain = "php"
		h := r.Range(3, 6)
		pg := h + r.Intn(2)
		p := &ref.Problem{N: pg * h}
		v := func(i, j int) int { return i*h + j + 1 }
		for i := 0; i < pg; i++ {
			row := make([]int, h)
			for j := range row {
				row[j] = v(i, j)
			}
			p.Cons = append(p.Cons, ref.Cl(row...))
		}
		for j := 0; j < h; j++ {
			col := make([]int, pg)
			for i := range col {
				col[i] = v(i, j)
			}
			p.Cons = append(p.Cons, ref.Lin{Lits: col, Rel: ref.LE, Rhs: 1})
		}
		c.P = p
		c.AMO = false
		return c
	}
	switch c.Domain {
	case "cnf":
		switch r.Intn(4) {
		case 0:
			c.P = gen.RandomAMOProblem(r, 10, false)
		case 1:
			h := r.Range(2, 3)
			cnf, n := gen.Pigeonhole(h+r.Intn(2), h)
			c.P = ref.CNFToProblem(cnf, n)
		default:
			n := r.Range(4, 11)
			cnf := gen.Random3SAT(r, n, 3, r.Range(300, 600))
			if r.Chance(1, 3) {
				cnf, n = gen.RandomCNF(r, gen.CNFOpts{MinVars: 2, MaxVars: 11, MaxLen: 4, Weird: true})
			}
			var c2 [][]int
			for _, cl := range cnf {
				if len(cl) > 0 {
					c2 = append(c2, cl)
				}
			}
			if mv := MaxVarCNF(c2); mv > n {
				n = mv
			}
			c.P = ref.CNFToProblem(c2, n)
		}
	case "card":
		c.P = gen.RandomPBProblem(r, gen.PBOpts{MinVars: 2, MaxVars: 10, CardOnly: true, MaxCons: 8, Hard: r.Chance(2, 3)})
		if big {
			c.P = gen.RandomPBProblem(r, gen.PBOpts{MinVars: 10, MaxVars: 14, CardOnly: true, Hard: true})
		}
	default:
		c.P = gen.RandomPBProblem(r, gen.PBOpts{MinVars: 2, MaxVars: 10, MaxW: r.Range(1, 5), NegCoefs: true, MaxCons: 8, Hard: r.Chance(2, 3)})
		if big {
			c.P = gen.RandomPBProblem(r, gen.PBOpts{MinVars: 10, MaxVars: 14, MaxW: r.Range(2, 9), NegCoefs: true, Hard: true})
		}
	}
	c.P.N = max(c.P.N, c.P.MaxVar())
	if r.Chance(1, 3) && c.P.MaxVar() > 0 {
		c.P.HasCost = true
		c.P.CostLits, c.P.CostW = gen.RandomCost(r, c.P.MaxVar(), 4, false, false)
	}
	return c
}

// context read by the cutting-planes hooks while a case runs
var c14ctx struct {
	rec    *Rec
	scen   string
	models []uint32 // models of the original problem
	n      int
	active bool
	solver *solver.Solver
	done   bool // a violation was already recorded for this run
}

func c14Implied(weights []int, card int) (ok bool, witness uint32) {
	for _, a := range c14ctx.models {
		sum := 0
		for i, w := range weights {
			if w == 0 {
				continue
			}
			val := i < 32 && a>>uint(i)&1 == 1
			if w > 0 && val {
				sum += w
			} else if w < 0 && !val {
				sum -= w
			}
		}
		if sum < card {
			return false, a
		}
	}
	return true, 0
}

func weightsString(weights []int, card int) string {
	s := ""
	for i, w := range weights {
		if w > 0 {
			s += fmt.Sprintf("%+d x%d ", w, i+1)
		} else if w < 0 {
			s += fmt.Sprintf("%+d ~x%d ", -w, i+1)
		}
	}
	return s + fmt.Sprintf(">= %d", card)
}

// InstallCPHooks installs the hooks observing the cutting-planes analysis.
func InstallCPHooks() {
	solver.VerifHooks.OnPB = func(s *solver.Solver, stage string, weights []int, card int) {
		x := &c14ctx
		if !x.active || x.done || s != x.solver {
			return
		}
		x.rec.Count("pb_events", 1)
		x.rec.Count("pb_events_"+stage, 1)
		if stage == "toplevel" {
			if len(x.models) > 0 {
				x.done = true
				x.rec.Viol(x.scen, "unjustified-toplevel-conflict", "cuttingPlanes:toplevel", "the analysis declares a top-level conflict with %s although the problem has %d models", weightsString(weights, card), len(x.models))
			}
			return
		}
		if ok, a := c14Implied(weights, card); !ok {
			x.done = true
			x.rec.Viol(x.scen, "non-consequence", "cuttingPlanes:"+stage, "constraint %s seen at stage %q is not implied by the problem: model %s violates it", weightsString(weights, card), stage, ref.AssignString(a, x.n))
		}
	}
	solver.VerifHooks.OnPBResult = func(s *solver.Solver, lits []int, weights []int, card int, propagated []int, newLvl int) {
		x := &c14ctx
		if !x.active || x.done || s != x.solver {
			return
		}
		x.rec.Count("pb_results", 1)
		if lits != nil {
			l := ref.Lin{Lits: lits, Coefs: weights, Rel: ref.GE, Rhs: card}
			for _, a := range x.models {
				if !l.Eval(a) {
					x.done = true
					x.rec.Viol(x.scen, "non-consequence", "cuttingPlanes:learned", "learned constraint %s is not implied by the problem: model %s violates it", l, ref.AssignString(a, x.n))
					return
				}
			}
			x.rec.Count("learned_constraints_checked", 1)
		}
		if newLvl == 1 {
			for _, u := range propagated {
				for _, a := range x.models {
					if !ref.LitTrue(u, a) {
						x.done = true
						x.rec.Viol(x.scen, "non-consequence", "cuttingPlanes:unit", "learned top-level unit %d is not implied by the problem: model %s violates it", u, ref.AssignString(a, x.n))
						return
					}
				}
			}
			x.rec.Count("learned_units_checked", len(propagated))
		}
	}
}

func c14Build(c *C14Case, rec *Rec, scen string) (pb *solver.Problem) {
	rec.Guard(scen+"/build", func() {
		switch c.Domain {
		case "cnf", "bigcnf", "bigopt", "relaxed":
			var cnf [][]int
			for _, l := range c.P.Cons {
				cnf = append(cnf, append([]int{}, l.Lits...))
			}
			pb = solver.ParseSliceNb(cnf, c.P.N)
		case "php":
			pb = buildPBProblem(c.P, "card")
		default:
			pb = buildPBProblem(c.P, c.Domain)
		}
		if c.P.HasCost && pb.NbVars >= c.P.MaxVar() {
			pb.SetCostFunc(ToLits(c.P.CostLits), CopyInts(c.P.CostW))
		}
		if c.AMO {
			pb.DetectAtMostOne()
		}
	})
	return pb
}

func c14Run(ci interface{}, rec *Rec) {
	c := ci.(*C14Case)
	if ConcurrentMode && (c.Domain == "bigcnf" || c.Domain == "bigopt" || c.Domain == "relaxed") {
		return // too slow under the race detector; C01's large instances play that role in C16
	}
	p := c.P
	n := p.N
	if !ConcurrentMode { // termination bound in logical steps, scaled to the size class of the instance
		solver.VerifHooks.StepBudget = c14Budget()
		if c.Domain == "bigcnf" || c.Domain == "bigopt" || c.Domain == "relaxed" || c.Domain == "php" {
			solver.VerifHooks.StepBudget = 200 * c14Budget()
		}
	}
	var models []uint32
	var sat bool
	min := 0
	if c.Domain == "php" {
		sat = len(p.Cons[0].Lits) >= len(p.Cons[len(p.Cons)-1].Lits) // holes >= pigeons
	} else if c.Domain == "bigopt" {
		sat = true // planted model
	} else if c.Domain == "relaxed" {
		min, sat = c.M.Optimum(c.M.N)
	} else if c.Domain == "bigcnf" {
		var cnf [][]int
		for _, l := range p.Cons {
			cnf = append(cnf, l.Lits)
		}
		var ok bool
		sat, _, ok = ref.DPLL(cnf, n, nil, oracleBudget(400_000_000))
		if !ok {
			rec.Inconclusive("reference DPLL budget exhausted (n=%d)", n)
			return
		}
	} else {
		models = p.Models(n)
		sat = len(models) > 0
		min, _ = p.MinCost(n)
	}
	SetLearnedLimit(c.Limit, true)
	label := fmt.Sprintf("%s/amo=%v", c.Domain, c.AMO)
	type answer struct {
		st   solver.Status
		cost int
		ok   bool
	}
	run := func(entry string, cp bool) (ans answer) {
		scen := fmt.Sprintf("%s/cp=%v+%s", label, cp, entry)
		pb := c14Build(c, rec, scen)
		if pb == nil {
			return
		}
		hasCost := pb.Optim()
		var s *solver.Solver
		var model []bool
		x := &c14ctx
		if ConcurrentMode {
			x = &struct {
				rec    *Rec
				scen   string
				models []uint32
				n      int
				active bool
				solver *solver.Solver
				done   bool
			}{} // tasks run in parallel: the shared hook context is not used
		}
		x.rec, x.scen, x.models, x.n, x.done = rec, scen, models, n, false
		panicked := rec.Guard(scen, func() {
			s = solver.New(pb)
			s.CuttingPlanes = cp
			x.solver = s
			x.active = cp && entry == "Solve" && c.Domain != "php" && c.Domain != "bigcnf" && c.Domain != "bigopt" && c.Domain != "relaxed" && !ConcurrentMode // learned constraints are only comparable with the original problem when no bound constraint was added
			defer func() { x.active = false }()
			switch entry {
			case "Solve":
				ans.st = s.Solve()
				if ans.st == solver.Sat {
					model = s.Model()
				}
			case "Optimal":
				res := s.Optimal(nil, nil)
				ans.st, ans.cost, model = res.Status, res.Weight, res.Model
			case "Minimize":
				ans.cost = s.Minimize()
				ans.st = solver.Sat
				if ans.cost == -1 {
					ans.st = solver.Unsat
				} else {
					model = s.Model()
				}
			}
		})
		x.active = false
		if panicked {
			return
		}
		if cp {
			rec.Count("cp_runs", 1)
			rec.Count("cp_conflicts", s.Stats.NbConflicts)
			rec.Count("cp_deleted", s.Stats.NbDeleted)
			rec.Max("cp_max_conflicts_in_one_run", s.Stats.NbConflicts)
			rec.Max("cp_max_steps_in_one_run_"+map[bool]string{true: "large", false: "small"}[c.Domain == "bigcnf" || c.Domain == "bigopt" || c.Domain == "relaxed" || c.Domain == "php"], int(s.VerifSteps()))
			rec.Count("cp_restarts", s.Stats.NbRestarts)
			if s.Stats.NbRestarts > 0 {
				rec.Count("cp_runs_with_restart", 1)
			}
			if s.Stats.NbConflicts > 0 {
				rec.Count("cp_runs_with_conflicts", 1)
			}
		}
		ans.ok = true
		switch ans.st {
		case solver.Sat:
			if !sat {
				rec.Viol(scen, "wrong-verdict", "Sat-for-unsat", "answered Sat but the problem has no model")
				return
			}
			if c.Domain == "php" || c.Domain == "bigcnf" || c.Domain == "bigopt" || c.Domain == "relaxed" {
				if bad := firstViolatedBools(p, model); bad >= 0 {
					rec.Viol(scen, "bad-model", "Model", "model %v violates constraint #%d: %s", model, bad, p.Cons[bad])
					return
				}
				if entry != "Solve" && hasCost {
					real := 0
					for i, l := range p.CostLits {
						v := l
						if v < 0 {
							v = -v
						}
						if (v-1 < len(model) && model[v-1]) == (l > 0) {
							real += p.CostW[i]
						}
					}
					if real != ans.cost {
						rec.Viol(scen, "cost-mismatch", "Weight", "reported cost %d, the model costs %d", ans.cost, real)
					}
					if c.Domain == "relaxed" && ans.cost != min {
						rec.Viol(scen, "not-optimal", "Weight", "reported cost %d, the optimum is %d", ans.cost, min)
					}
				}
				return
			}
			if bad, a := checkModelAllCompletions(p, model, n); bad >= 0 {
				rec.Viol(scen, "bad-model", "Model", "model %s violates constraint #%d: %s", ref.AssignString(a, n), bad, p.Cons[bad])
				return
			}
			if entry != "Solve" && hasCost {
				if real := p.Cost(ref.BoolsToAssign(model)); real != ans.cost {
					rec.Viol(scen, "cost-mismatch", "Weight", "reported cost %d, the model costs %d", ans.cost, real)
				}
				if ans.cost != min {
					rec.Viol(scen, "not-optimal", "Weight", "reported cost %d, the optimum is %d", ans.cost, min)
				}
			}
		case solver.Unsat:
			if sat {
				rec.Viol(scen, "wrong-verdict", "Unsat-for-sat", "answered Unsat but the problem is satisfiable (%d models known)", len(models))
			}
		default:
			rec.Viol(scen, "wrong-verdict", "Indet", "answered %s", StatusName(ans.st))
		}
		return ans
	}
	entries := []string{"Solve"}
	if p.HasCost {
		entries = append(entries, "Optimal", "Minimize")
	}
	for _, e := range entries {
		off := run(e, false)
		on := run(e, true)
		if off.ok && on.ok && (off.st != on.st || (e != "Solve" && off.cost != on.cost)) {
			rec.Viol(label+"+"+e, "strategy-changes-answer", "differential", "default strategy: (%s,%d), cutting planes: (%s,%d)", StatusName(off.st), off.cost, StatusName(on.st), on.cost)
		}
	}
	rec.Count("cases_"+c.Domain, 1)
	if len(p.Cons) >= 3 {
		rec.Interesting(JS(p) + fmt.Sprint(c.AMO))
	}
}

func init() {
	register(&Prop{
		ID:       "C14",
		NumCases: func(tier string) int { return c14Counts[tier] + c14Focus[tier] },
		Gen:      c14Gen,
		New:      func() interface{} { return &C14Case{} },
		Run:      c14Run,
		Setup: func(string) {
			InstallSeqHooks()
			InstallCPHooks()
			solver.VerifHooks.StepBudget = c14Budget() // far above any legitimate search on these sizes (the largest observed run stays below 10% of it)
		},
		Rule: "random problems over 2..12 variables in three domains - pure CNF (3-SAT around the threshold, AMO-rich, pigeonhole, mixed), cardinality, PB with signed coefficients - with or without a cost function and with or without prior DetectAtMostOne; each is solved (and, with a cost function, optimised through Optimal and Minimize) with CuttingPlanes off and on: both answers are judged by the truth table and compared with each other; during Solve with the strategy on, every constraint the analysis reports through the verifPB hook (conflict, reason, rounded, resolvent, final, learned constraint, learned top-level units) must be implied by the problem and a top-level conflict requires an unsatisfiable problem; plus pure CNF on 30..50 variables / clause-form pigeonhole under cutting planes (hundreds to thousands of conflicts: Luby restarts, deletion of learned PB constraints; reference by DPLL), and relaxed MaxSAT instances with 40..80 soft clauses (long optimisations with restarts in the middle, reference optimum by exhaustive search over the user variables); then three times as many dense cardinality problems (6..10 variables, n..2n constraints of degree about half their length, no large instance among them), the shape on which a learned constraint that yields both top-level units and a remainder is most often met; a step budget (3e6 loop iterations for the truth-table-sized domains, 6e8 for the large ones; the evidence reports the largest count observed) decides termination. " +
			"non-trivial = problem with >= 3 constraints; distinct by problem and options",
		Assumptions: []string{
			"reference truth table of internal/ref",
			"the verifPB / verifPBResult hooks report the analysis' constraints faithfully (add-only calls in learn_pb.go)",
			"implied-constraint checks are made during Solve only: during optimisation the solver also holds bound constraints that are not part of the original problem",
		},
		Floors: map[string]map[string]int64{
			"quick":    {"cp_runs_with_conflicts": 3000, "pb_events": 20000},
			"thorough": {"cp_runs_with_conflicts": 60000, "pb_events": 400000},
		},
	})
}

// firstViolatedBools evaluates p on a model of any length (no truth table).
func firstViolatedBools(p *ref.Problem, model []bool) int {
	for i, c := range p.Cons {
		sum := 0
		for j, l := range c.Lits {
			v := l
			if v < 0 {
				v = -v
			}
			val := v-1 < len(model) && model[v-1]
			if val == (l > 0) {
				if c.Coefs == nil {
					sum++
				} else {
					sum += c.Coefs[j]
				}
			}
		}
		ok := false
		switch c.Rel {
		case ref.GE:
			ok = sum >= c.Rhs
		case ref.LE:
			ok = sum <= c.Rhs
		default:
			ok = sum == c.Rhs
		}
		if !ok {
			return i
		}
	}
	return -1
}

func abs(x int) int {
	if x < 0 {
		return -x
	}
	return x
}

func c14Budget() int64 {
	if v := os.Getenv("VERIF_C14_BUDGET"); v != "" {
		var b int64
		fmt.Sscan(v, &b)
		return b
	}
	return 3_000_000
}
