package props

import (
	"bytes"
	"sort"

	"github.com/crillab/gophersat/bf"

	"verif/internal/gen"
	"verif/internal/ref"
)

// C12 — the DIMACS export of a formula has exactly the formula's models.

// C12Case is a formula tree (exactly-one groups only in positive position).
type C12Case struct {
	F   *ref.F `json:"f"`
	Dup bool   `json:"dup,omitempty"` // a group lists a variable twice: judged by the library's own Eval
}

var c12Counts = map[string]int{"quick": 30_000, "thorough": 600_000}

func c12GenPlain(r *gen.Rng, tier string, idx int) interface{} {
	o := gen.FormulaOpts{MaxDepth: r.Range(1, 5), NbVars: r.Range(1, 9), Consts: r.Chance(1, 2), Xor: true, NegUniq: false, MaxGroup: 0}
	if r.Chance(1, 2) {
		o.MaxGroup = r.Range(1, 9)
	}
	if r.Chance(1, 6) {
		return &C12Case{F: gen.RandomGroupFormula(r, false)}
	}
	return &C12Case{F: gen.RandomFormula(r, o, 0, false)}
}

func c12Run(ci interface{}, rec *Rec) {
	c := ci.(*C12Case)
	scen := "bf.Dimacs"
	eval := treeEval(c.F, c.Dup)
	if c.Dup {
		scen = "bf.Dimacs/group-with-repeated-variable"
		rec.Count("formulas_with_repeated_variable_in_group", 1)
	}
	var buf bytes.Buffer
	var err error
	if rec.Guard(scen, func() { err = bf.Dimacs(ToBF(c.F), &buf) }) {
		return
	}
	if err != nil {
		rec.Viol(scen, "parse-error", "Dimacs", "Dimacs returned error %v", err)
		return
	}
	rec.Count("exports", 1)
	text := buf.String()
	d, rerr := ref.ReadDimacs(text)
	if rerr != nil {
		rec.Viol(scen, "malformed-export", "format", "the export is not well formed: %v\n%s", rerr, text)
		return
	}
	rec.Count("clauses_exported", len(d.Clauses))
	treeVars := c.F.Vars()
	inTree := map[string]bool{}
	for _, v := range treeVars {
		inTree[v] = true
	}
	usedIdx := map[int]string{}
	var named []string
	for name, idx := range d.Names {
		if !inTree[name] {
			rec.Viol(scen, "malformed-export", "names", "comment maps %q which is not a variable of the formula", name)
			return
		}
		if idx < 1 || idx > d.NbVars {
			rec.Viol(scen, "malformed-export", "names", "variable %q mapped to index %d outside 1..%d", name, idx, d.NbVars)
			return
		}
		if other, dup := usedIdx[idx]; dup {
			rec.Viol(scen, "malformed-export", "names", "variables %q and %q share index %d", name, other, idx)
			return
		}
		usedIdx[idx] = name
		named = append(named, name)
	}
	sort.Strings(named)
	var elim []string
	for _, v := range treeVars {
		if _, ok := d.Names[v]; !ok {
			elim = append(elim, v)
		}
	}
	// an auxiliary index must not be reachable as if it were... every variable index that carries no name is auxiliary
	for a := uint32(0); a < 1<<uint(len(named)); a++ {
		m := ref.AssignOf(named, a)
		// value of the tree for every value of the eliminated variables
		first, constant := false, true
		for e := uint32(0); e < 1<<uint(len(elim)); e++ {
			for i, v := range elim {
				m[v] = e>>uint(i)&1 == 1
			}
			val := eval(m)
			if e == 0 {
				first = val
			} else if val != first {
				constant = false
			}
		}
		if !constant {
			rec.Viol(scen, "roundtrip-mismatch", "eliminated-variable", "variables %v carry no index in the export but the formula depends on them under %v; formula %s", elim, ref.AssignOf(named, a), c.F)
			return
		}
		assume := make([]int, 0, len(named))
		for i, v := range named {
			idx := d.Names[v]
			if a>>uint(i)&1 == 0 {
				idx = -idx
			}
			assume = append(assume, idx)
		}
		sat, _, ok := ref.DPLL(d.Clauses, d.NbVars, assume, oracleBudget(100_000_000))
		if !ok {
			rec.Inconclusive("DPLL budget exhausted on an export with %d variables", d.NbVars)
			return
		}
		rec.Count("assignments_compared", 1)
		if sat != first {
			dir := "a model of the formula does not extend to a model of the export"
			if sat {
				dir = "a model of the export restricts to a non-model of the formula"
			}
			rec.Viol(scen, "roundtrip-mismatch", "models", "%s: named assignment %v, formula %s\n%s", dir, ref.AssignOf(named, a), c.F, text)
			return
		}
	}
	if len(elim) > 0 {
		rec.Count("exports_with_eliminated_vars", 1)
	}
	if d.NbVars > len(named) {
		rec.Count("exports_with_auxiliary_vars", 1)
	}
	if len(d.Clauses) >= 2 && len(named) >= 2 {
		rec.Interesting(c.F.String())
	}
}

func init() {
	register(&Prop{
		ID:       "C12",
		NumCases: func(tier string) int { return c12Counts[tier] },
		Gen:      c12Gen,
		New:      func() interface{} { return &C12Case{} },
		Run:      c12Run,
		Setup:    func(string) { InstallSeqHooks() },
		Rule: "random formula trees as in C11 with exactly-one groups (size 0..9) only in positive position; the bytes written by bf.Dimacs are read by the harness's own strict DIMACS reader (header counts, literal ranges, name comments distinct and in range, names are variables of the formula); then for every assignment of the named variables: the formula's value (which must not depend on the variables the export eliminated) equals the satisfiability of the exported clauses under that assignment, decided by the harness's DPLL over the auxiliary variables. " +
			"non-trivial = export with >= 2 clauses and >= 2 named variables; distinct by tree",
		Assumptions: []string{"reference formula evaluator, DIMACS reader and DPLL of internal/ref", "exactly-one groups occur only positively (as the property's quantifier says) and list distinct variables, except in 1 case out of 10 where a group lists a variable twice and the formula is judged by the library's own Eval (self-consistency)"},
		Floors: map[string]map[string]int64{
			"quick":    {"assignments_compared": 200000, "exports_with_auxiliary_vars": 3000},
			"thorough": {"assignments_compared": 4000000, "exports_with_auxiliary_vars": 60000},
		},
	})
}

func c12Gen(r *gen.Rng, tier string, idx int) interface{} {
	c := c12GenPlain(r, tier, idx).(*C12Case)
	if r.Chance(1, 8) { // variable names that look like the translation's own auxiliary names
		gen.RenameAdversarial(r, c.F)
	}
	if r.Chance(1, 10) {
		c.Dup = gen.DuplicateInGroup(r, c.F)
	}
	return c
}
