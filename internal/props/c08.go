package props

import (
	"errors"
	"fmt"
	"io"
	"strings"

	"github.com/crillab/gophersat/explain"
	"github.com/crillab/gophersat/solver"

	"verif/internal/gen"
	"verif/internal/ref"
)

// C08 — the certificate checker only accepts consequences; unsat subsets are unsat.

// C08Case is a CNF problem and a recipe for a certificate.
type C08Case struct {
	N       int     `json:"n"`
	CNF     [][]int `json:"cnf"`
	Kind    string  `json:"kind"`  // genuine | random | droplit | fliplit | dropline | empty | shuffled
	Entry   string  `json:"entry"` // reader | chan
	MutSeed uint64  `json:"mutSeed"`
	Comment bool    `json:"comment"`
}

var c08Counts = map[string]int{"quick": 20_000, "thorough": 500_000}

func c08Gen(r *gen.Rng, tier string, idx int) interface{} {
	c := &C08Case{MutSeed: r.U64(), Comment: r.Chance(1, 5)}
	c.Kind = []string{"genuine", "genuine", "random", "random", "droplit", "fliplit", "dropline", "empty", "shuffled"}[r.Intn(9)]
	c.Entry = []string{"reader", "chan"}[r.Intn(2)]
	if r.Chance(1, 150) { // a certificate the reader cannot take in entirely: a line of more than 64 KiB, or a reader that fails
		c.Kind = []string{"longline", "readerfault"}[r.Intn(2)]
		c.Entry = "reader"
	}
	switch r.Intn(3) {
	case 0:
		c.CNF, c.N = gen.RandomMUSInput(r, 9, 30)
	case 1:
		c.N = r.Range(6, 14)
		c.CNF = gen.Random3SAT(r, c.N, 3, r.Range(400, 650))
	default:
		c.CNF, c.N = gen.RandomCNF(r, gen.CNFOpts{MinVars: 2, MaxVars: 10, MaxLen: 4, Weird: false})
	}
	// explain.ParseCNF is line based and registers unit clauses against the declared variable count
	if r.Chance(11, 12) { // mostly without the empty clause, which makes every certificate valid at once
		var cnf [][]int
		for _, cl := range c.CNF {
			if len(cl) > 0 {
				cnf = append(cnf, cl)
			}
		}
		c.CNF = cnf
	}
	if mv := MaxVarCNF(c.CNF); mv > c.N {
		c.N = mv
	}
	return c
}

// solverTrace returns the certificate produced by the solver on cnf.
func solverTrace(cnf [][]int, n int) (lines [][]int, st solver.Status) {
	pb := solver.ParseSliceNb(CloneCNF(cnf), n)
	s := solver.New(pb)
	s.Certified = true
	s.CertChan = make(chan string, 16)
	done := make(chan struct{})
	go func() {
		for l := range s.CertChan {
			if cl, ok := parseCertLine(l); ok {
				lines = append(lines, cl)
			}
		}
		close(done)
	}()
	st = s.Solve()
	close(s.CertChan)
	<-done
	return lines, st
}

func c08Certificate(c *C08Case, rec *Rec) (lines [][]int, ok bool) {
	r := gen.New(c.MutSeed)
	var trace [][]int
	if c.Kind != "random" && c.Kind != "empty" {
		if rec.Guard("trace", func() { trace, _ = solverTrace(c.CNF, c.N) }) {
			return nil, false
		}
	}
	switch c.Kind {
	case "genuine":
		lines = trace
	case "empty":
	case "random":
		for k := r.Range(1, 6); k > 0; k-- {
			lines = append(lines, r.DistinctLits(c.N, r.Range(1, min(3, c.N))))
		}
		if r.Chance(1, 3) {
			lines = append(lines, []int{})
		}
	case "droplit":
		lines = ref.CloneCNF(trace)
		if len(lines) > 0 {
			i := r.Intn(len(lines))
			if len(lines[i]) > 0 {
				j := r.Intn(len(lines[i]))
				lines[i] = append(lines[i][:j], lines[i][j+1:]...)
			}
		}
	case "fliplit":
		lines = ref.CloneCNF(trace)
		if len(lines) > 0 {
			i := r.Intn(len(lines))
			if len(lines[i]) > 0 {
				j := r.Intn(len(lines[i]))
				lines[i][j] = -lines[i][j]
			}
		}
	case "dropline":
		lines = ref.CloneCNF(trace)
		if len(lines) > 0 {
			i := r.Intn(len(lines))
			lines = append(lines[:i], lines[i+1:]...)
		}
	case "shuffled":
		lines = ref.CloneCNF(trace)
		p := r.Perm(len(lines))
		l2 := make([][]int, len(lines))
		for i, j := range p {
			l2[i] = lines[j]
		}
		lines = l2
	}
	return lines, true
}

func certText(lines [][]int, comments bool) []string {
	var out []string
	if comments {
		out = append(out, "c certificate", "")
	}
	for i, l := range lines {
		var sb strings.Builder
		for _, x := range l {
			fmt.Fprintf(&sb, "%d ", x)
		}
		sb.WriteString("0")
		out = append(out, sb.String())
		if comments && i%3 == 1 {
			out = append(out, "o solver info line", "   ")
		}
	}
	return out
}

func runChecker(pb *explain.Problem, entry string, text []string) (valid bool, err error) {
	if entry == "reader" {
		return pb.Unsat(strings.NewReader(strings.Join(text, "\n") + "\n"))
	}
	ch := make(chan string)
	stop := make(chan struct{})
	go func() {
		defer close(ch)
		for _, l := range text {
			select {
			case ch <- l:
			case <-stop:
				return
			}
		}
	}()
	valid, err = pb.UnsatChan(ch)
	close(stop)
	return valid, err
}

func c08Run(ci interface{}, rec *Rec) {
	c := ci.(*C08Case)
	SetLearnedLimit(0, false)
	n := c.N
	refP := ref.CNFToProblem(c.CNF, n)
	sat := refP.Sat(n)
	if c.Kind == "longline" || c.Kind == "readerfault" {
		c08Unreadable(c, rec, refP, n)
		return
	}
	lines, ok := c08Certificate(c, rec)
	if !ok {
		return
	}
	scen := "Unsat(reader)/" + c.Kind
	if c.Entry == "chan" {
		scen = "UnsatChan/" + c.Kind
	}
	pb := explainParse(c.CNF, n, rec, scen)
	if pb == nil {
		return
	}
	text := certText(lines, c.Comment)
	// reference verdict: every line RUP w.r.t. the formula and the earlier lines (the channel entry point stops at the empty clause)
	chk := ref.NewRUP(c.CNF, n)
	allRup, allConsequence, hasEmpty := true, true, false
	for _, l := range lines {
		if !chk.Check(l) {
			allRup = false
		}
		if !refP.Implies(n, ref.Cl(l...)) {
			allConsequence = false
		}
		if len(l) == 0 {
			hasEmpty = true
			if c.Entry == "chan" {
				break
			}
		}
		chk.Add(l)
	}
	var valid bool
	var err error
	if rec.Guard(scen, func() { valid, err = runChecker(pb, c.Entry, text) }) {
		return
	}
	rec.Count("checks", 1)
	rec.Count("lines_checked", len(lines))
	if err != nil {
		rec.Viol(scen, "parse-error", "checker", "the checker returned error %q on a well-formed certificate", err)
		return
	}
	if valid {
		rec.Count("accepted", 1)
		if !allConsequence {
			rec.Viol(scen, "non-consequence-accepted", "checker", "certificate %v accepted although one of its lines is not a logical consequence of %v", lines, c.CNF)
		}
		if hasEmpty && sat {
			rec.Viol(scen, "non-consequence-accepted", "checker", "certificate with the empty clause accepted on a satisfiable problem")
		}
		if !allRup {
			rec.Count("accepted_not_rup_for_reference", 1) // a note, not a violation: all lines are consequences
		}
	} else {
		rec.Count("rejected", 1)
		if allRup {
			rec.Viol(scen, "rup-rejected", "checker", "certificate %v rejected although every line follows by unit propagation", lines)
		}
	}
	if len(pb.Clauses) != pb.NbClauses || len(pb.Clauses) != len(c.CNF) {
		rec.Viol(scen, "caller-mutated", "receiver", "after checking, the problem holds %d clauses (NbClauses=%d, input %d)", len(pb.Clauses), pb.NbClauses, len(c.CNF))
	}
	// reusable with the same answer
	var valid2 bool
	if !rec.Guard(scen+"/again", func() { valid2, err = runChecker(pb, c.Entry, text) }) {
		if valid2 != valid {
			rec.Viol(scen+"/again", "not-reusable", "checker", "the same certificate is %v the first time and %v the second time", valid, valid2)
		}
	}
	// unsat subset on the same (already used) problem value
	scen = "UnsatSubset/after-" + c.Entry
	var sub *explain.Problem
	if rec.Guard(scen, func() { sub, err = pb.UnsatSubset() }) {
		return
	}
	rec.Count("subsets", 1)
	if sat {
		if err == nil {
			rec.Viol(scen, "wrong-verdict", "no-error-on-sat", "satisfiable problem but UnsatSubset returned no error")
		}
	} else {
		if err != nil {
			rec.Viol(scen, "wrong-verdict", "error-on-unsat", "unsatisfiable problem but UnsatSubset returned %q", err)
		} else {
			checkSubset(rec, scen, c.CNF, n, sub, false)
			if sub != nil {
				rec.Count("subset_clauses", len(sub.Clauses))
				rec.Count("input_clauses_of_unsat", len(c.CNF))
			}
		}
	}
	if len(lines) >= 2 {
		rec.Interesting(fmt.Sprint(c.CNF, lines, c.Entry))
	}
	if len(lines) >= 2 && valid {
		rec.Count("accepted_2plus_lines", 1)
	}
	if len(lines) >= 2 && !valid {
		rec.Count("rejected_2plus_lines", 1)
	}
}

func init() {
	register(&Prop{
		ID:       "C08",
		NumCases: func(tier string) int { return c08Counts[tier] },
		Gen:      c08Gen,
		New:      func() interface{} { return &C08Case{} },
		Run:      c08Run,
		Setup: func(string) {
			InstallSeqHooks()
			solver.VerifHooks.GlobalBudget = 200_000
		},
		Rule: "random CNF problems over 2..10 variables (MUS-style inputs, 3-SAT, mixed) read by explain.ParseCNF, paired with certificates: genuine solver traces, random clause sequences (with and without the empty clause), traces with one literal dropped or flipped, one line removed, lines shuffled, the empty certificate, optional comment and blank lines; entry points Unsat(reader) and UnsatChan (producer goroutine closes the channel); judged against the independent RUP checker (accept iff every line is RUP) and the truth table (accepted lines are consequences); then the same certificate again, then UnsatSubset on the same problem value (error iff satisfiable, sub-multiset, unsatisfiable). " +
			"non-trivial = the certificate has >= 2 lines; distinct by (problem, certificate, entry point)",
		Assumptions: []string{
			"reference RUP checker and truth table of internal/ref",
			"certificates only mention the problem's variables; empty clauses are not part of the input problems (explain.ParseCNF is line based)",
		},
		Floors: map[string]map[string]int64{
			"quick":    {"accepted_2plus_lines": 1000, "rejected_2plus_lines": 1000, "subsets": 10000},
			"thorough": {"accepted_2plus_lines": 25000, "rejected_2plus_lines": 25000, "subsets": 250000},
		},
	})
}

// faultyReader delivers its text, then fails with a non-EOF error.
type faultyReader struct {
	text string
	pos  int
}

func (f *faultyReader) Read(p []byte) (int, error) {
	if f.pos >= len(f.text) {
		return 0, errors.New("injected read error")
	}
	n := copy(p, f.text[f.pos:])
	f.pos += n
	return n, nil
}

var _ io.Reader = (*faultyReader)(nil)

// c08Unreadable offers a certificate whose bad line the checker cannot read completely (a line above the
// scanner's 64 KiB limit, or a reader failing before it): whatever it does, it must not call it valid.
func c08Unreadable(c *C08Case, rec *Rec, refP *ref.Problem, n int) {
	scen := "Unsat(reader)/" + c.Kind
	r := gen.New(c.MutSeed)
	var bad []int
	for try := 0; try < 30 && bad == nil; try++ {
		cl := r.DistinctLits(n, r.Range(1, min(2, n)))
		if !refP.Implies(n, ref.Cl(cl...)) {
			bad = cl
		}
	}
	if bad == nil {
		rec.Count("unreadable_skipped_no_non_consequence", 1)
		return
	}
	pb := explainParse(c.CNF, n, rec, scen)
	if pb == nil {
		return
	}
	var reader io.Reader
	if c.Kind == "longline" {
		var sb strings.Builder
		for sb.Len() < 70_000 { // the same non-consequence clause, its literals written again and again
			for _, l := range bad {
				fmt.Fprintf(&sb, "%d ", l)
			}
		}
		sb.WriteString("0\n0\n")
		reader = strings.NewReader(sb.String())
	} else {
		// a first, harmless line (a tautology), then the reader fails: the bad line and the empty clause are never seen
		reader = &faultyReader{text: "1 -1 0\n"}
	}
	var valid bool
	var err error
	if rec.Guard(scen, func() { valid, err = pb.Unsat(reader) }) {
		return
	}
	rec.Count("unreadable_certificates", 1)
	if valid && err == nil {
		rec.Viol(scen, "non-consequence-accepted", "unreadable-certificate", "the certificate could not be read entirely (%s) and its unread part is not a consequence (%v), yet the checker reports it valid without error", c.Kind, bad)
	}
	if len(pb.Clauses) != pb.NbClauses {
		rec.Viol(scen, "caller-mutated", "receiver", "after the failed check the problem holds %d clauses, NbClauses=%d", len(pb.Clauses), pb.NbClauses)
	}
	rec.Interesting(fmt.Sprint(c.CNF, c.Kind, bad))
}
