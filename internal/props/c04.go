package props

import (
	"fmt"
	"strings"

	"github.com/crillab/gophersat/maxsat"
	"github.com/crillab/gophersat/solver"

	"verif/internal/gen"
	"verif/internal/ref"
)

// C04 — MaxSAT answers minimise the weight of violated soft constraints.

// C04Case is a MaxSAT instance given through the API or as WCNF text.
type C04Case struct {
	M        *gen.MaxSat `json:"m"`
	Front    string      `json:"front"`           // api | wcnf
	Declared int         `json:"declared"`        // WCNF: declared variable count (>= highest used)
	Top      bool        `json:"top"`             // WCNF: header carries a top weight
	Tail     int         `json:"tail,omitempty"`  // api: the last Tail hard constraints are handed over after all the others
	Heavy    int         `json:"heavy,omitempty"` // WCNF: hard clauses are written with weight top+Heavy on every other line (a weight above top is not defined by the format; see c04Run)
}

var c04Counts = map[string]int{"quick": 30_000, "thorough": 600_000}

func c04Gen(r *gen.Rng, tier string, idx int) interface{} {
	c := &C04Case{}
	if r.Chance(2, 5) {
		c.Front = "wcnf"
		c.M = gen.RandomMaxSat(r, 9, true)
		c.Declared = c.M.MaxVar()
		if c.Declared == 0 {
			c.Declared = 1
		}
		if r.Chance(1, 3) {
			c.Declared += r.Range(1, 3)
		}
		c.Top = len(c.M.Hard) > 0 || r.Bool()
		if c.Top && len(c.M.Hard) > 0 && r.Chance(1, 8) {
			c.Heavy = r.Range(1, 3)
		}
	} else {
		c.Front = "api"
		c.M = gen.RandomMaxSat(r, 9, false)
		if r.Chance(1, 8) { // the last constraints are slack ones and the only ones to mention the highest variables
			n := c.M.MaxVar()
			c.Tail = r.Range(1, 2)
			for k := 0; k < c.Tail; k++ {
				vars := []int{n + 1}
				if r.Bool() {
					vars = append(vars, n+2)
				}
				n += len(vars)
				c.M.Hard = append(c.M.Hard, gen.SlackConstr(r, vars))
			}
		}
	}
	return c
}

func varName(v int) string { return fmt.Sprintf("v%d", v) }

func maxsatConstr(l ref.Lin, weight int) maxsat.Constr {
	lits := make([]maxsat.Lit, len(l.Lits))
	for i, x := range l.Lits {
		if x < 0 {
			lits[i] = maxsat.Not(varName(-x))
		} else {
			lits[i] = maxsat.Var(varName(x))
		}
	}
	return maxsat.Constr{Lits: lits, Coeffs: CopyInts(l.Coefs), AtLeast: l.Rhs, Weight: weight}
}

// MaxSatConstrs translates the instance to API constraints (fresh slices).
func MaxSatConstrs(m *gen.MaxSat, tail ...int) []maxsat.Constr {
	var cs []maxsat.Constr
	nh := len(m.Hard)
	if len(tail) > 0 && tail[0] <= nh {
		nh -= tail[0]
	}
	// interleave hard and soft constraints deterministically
	i, j := 0, 0
	for i < nh || j < len(m.Soft) {
		if i < nh && (j >= len(m.Soft) || (i+j)%2 == 0) {
			cs = append(cs, maxsatConstr(m.Hard[i], 0))
			i++
		} else {
			cs = append(cs, maxsatConstr(m.Soft[j], m.W[j]))
			j++
		}
	}
	for ; i < len(m.Hard); i++ { // the tail
		cs = append(cs, maxsatConstr(m.Hard[i], 0))
	}
	return cs
}

// RenderWCNF writes the instance as WCNF; top is the hard weight (0: no top field, every clause soft).
func RenderWCNF(m *gen.MaxSat, declared int, withTop bool, heavy ...int) string {
	var sb strings.Builder
	top := 0
	if withTop {
		top = 1
		for _, w := range m.W {
			top += w
		}
	}
	sb.WriteString("c generated\n")
	if withTop {
		fmt.Fprintf(&sb, "p wcnf %d %d %d\n", declared, len(m.Hard)+len(m.Soft), top)
	} else {
		fmt.Fprintf(&sb, "p wcnf %d %d\n", declared, len(m.Hard)+len(m.Soft))
	}
	line := func(w int, c ref.Lin) {
		fmt.Fprintf(&sb, "%d ", w)
		for _, l := range c.Lits {
			fmt.Fprintf(&sb, "%d ", l)
		}
		sb.WriteString("0\n")
	}
	i, j := 0, 0
	for i < len(m.Hard) || j < len(m.Soft) {
		if i < len(m.Hard) && (j >= len(m.Soft) || (i+j)%2 == 0) {
			w := top
			if len(heavy) > 0 && i%2 == 0 {
				w += heavy[0]
			}
			line(w, m.Hard[i])
			i++
		} else {
			line(m.W[j], m.Soft[j])
			j++
		}
	}
	return sb.String()
}

// onlyNullVars returns the variables whose every occurrence carries the coefficient 0.
func onlyNullVars(m *gen.MaxSat) map[string]bool {
	res := map[string]bool{}
	live := map[string]bool{}
	for _, cs := range [][]ref.Lin{m.Hard, m.Soft} {
		for _, c := range cs {
			for i, l := range c.Lits {
				if l < 0 {
					l = -l
				}
				if c.Coefs != nil && c.Coefs[i] == 0 {
					res[varName(l)] = true
				} else {
					live[varName(l)] = true
				}
			}
		}
	}
	for k := range live {
		delete(res, k)
	}
	return res
}

func usedVars(m *gen.MaxSat) map[string]bool {
	res := map[string]bool{}
	add := func(cs []ref.Lin) {
		for _, c := range cs {
			for _, l := range c.Lits {
				if l < 0 {
					l = -l
				}
				res[varName(l)] = true
			}
		}
	}
	add(m.Hard)
	add(m.Soft)
	return res
}

func c04Run(ci interface{}, rec *Rec) {
	c := ci.(*C04Case)
	m := c.M
	n := m.MaxVar()
	if c.Front == "wcnf" && c.Declared > n {
		n = c.Declared
	}
	opt, sat := m.Optimum(max(n, 1))
	SetLearnedLimit(0, false)
	if sat {
		rec.Count("feasible", 1)
		if opt > 0 {
			rec.Count("optimum_positive", 1)
		}
	} else {
		rec.Count("hard_unsat", 1)
	}
	if c.Front == "api" {
		scen := "maxsat.New+Solve"
		used := usedVars(m)
		onlyNull := onlyNullVars(m)
		distinctModels := map[string]bool{}
		// The same constraint values are handed over three times, and constraints with equal coefficient lists share
		// one slice, as a caller building constraints in a loop would do: New must not modify what it is given.
		constrs := MaxSatConstrs(m, c.Tail)
		shared := map[string][]int{}
		for i := range constrs {
			if constrs[i].Coeffs != nil {
				k := fmt.Sprint(constrs[i].Coeffs)
				if sl, ok := shared[k]; ok {
					constrs[i].Coeffs = sl
				} else {
					shared[k] = constrs[i].Coeffs
				}
			}
		}
		for rep := 0; rep < 3; rep++ {
			var model maxsat.Model
			var cost int
			if rec.Guard(scen, func() {
				pb := maxsat.New(constrs...)
				model, cost = pb.Solve()
			}) {
				return
			}
			rec.Count("api_solves", 1)
			if model == nil {
				if sat {
					rec.Viol(scen, "wrong-verdict", "Unsat-for-sat", "Solve returned no model but the hard constraints are satisfiable (optimum %d)", opt)
				}
				if cost != -1 {
					rec.Viol(scen, "cost-mismatch", "cost", "nil model with cost %d, expected -1", cost)
				}
				continue
			}
			if !sat {
				rec.Viol(scen, "wrong-verdict", "Sat-for-unsat", "Solve returned a model but the hard constraints are unsatisfiable")
				continue
			}
			for k := range model {
				if !used[k] {
					rec.Viol(scen, "leak", "Model", "returned model has key %q which is not a user variable", k)
				}
			}
			var a uint32
			for k := range used {
				if _, in := model[k]; !in && onlyNull[k] {
					continue // a variable written only with null coefficients: whether it is one of "the user's variables" is not said, so not asserted
				}
				val, ok := model[k]
				if !ok {
					rec.Viol(scen, "model-length", "Model", "user variable %q missing from the returned model", k)
				}
				var v int
				fmt.Sscanf(k, "v%d", &v)
				if val {
					a |= 1 << uint(v-1)
				}
			}
			real, ok := m.Cost(a)
			if !ok {
				rec.Viol(scen, "bad-model", "Model", "returned model %s violates a hard constraint", ref.AssignString(a, n))
				continue
			}
			if real != cost {
				rec.Viol(scen, "cost-mismatch", "cost", "reported cost %d, the returned model violates soft constraints of total weight %d", cost, real)
			}
			if cost != opt {
				rec.Viol(scen, "not-optimal", "cost", "reported cost %d, the optimum is %d", cost, opt)
			}
			distinctModels[ref.AssignString(a, n)] = true
		}
		rec.Max("distinct_result_models_per_instance", len(distinctModels))
		if c.Tail > 0 {
			rec.Count("api_instances_ending_with_slack_constraints_over_fresh_variables", 1)
		}
		if sat && opt > 0 && len(m.Soft) >= 2 {
			rec.Interesting(JS(m) + "api")
		}
		return
	}
	// WCNF
	text := RenderWCNF(m, c.Declared, c.Top, c.Heavy)
	if c.Heavy > 0 {
		// A clause heavier than top is outside the published format. Any reasonable reading (hard, as gophersat does;
		// a soft clause heavier than all others together; a parse error) agrees with "hard" whenever the hard part is
		// satisfiable, so only that case is asserted, and a parse error is accepted.
		rec.Count("wcnf_heavier_than_top", 1)
		if !sat {
			return
		}
	}
	check := func(scen string, res solver.Result) {
		if res.Status == solver.Unsat {
			if sat {
				rec.Viol(scen, "wrong-verdict", "Unsat-for-sat", "answered Unsat but the hard clauses are satisfiable (optimum %d)", opt)
			}
			return
		}
		if res.Status != solver.Sat {
			rec.Viol(scen, "wrong-verdict", "Indet", "answered %s", StatusName(res.Status))
			return
		}
		if !sat {
			rec.Viol(scen, "wrong-verdict", "Sat-for-unsat", "answered Sat but the hard clauses are unsatisfiable")
			return
		}
		if len(res.Model) != c.Declared {
			kind := "model-length"
			if len(res.Model) > c.Declared {
				kind = "leak"
			}
			rec.Viol(scen, kind, "Model", "model has %d values, the header declares %d variables", len(res.Model), c.Declared)
			if len(res.Model) < m.MaxVar() {
				return
			}
		}
		a := ref.BoolsToAssign(res.Model)
		if c.Declared < 32 {
			a &= 1<<uint(c.Declared) - 1
		}
		real, ok := m.Cost(a)
		if !ok {
			rec.Viol(scen, "bad-model", "Model", "returned model %s violates a hard clause", ref.AssignString(a, n))
			return
		}
		if real != res.Weight {
			rec.Viol(scen, "cost-mismatch", "Weight", "reported cost %d, the returned model violates soft clauses of total weight %d", res.Weight, real)
		}
		if res.Weight != opt {
			rec.Viol(scen, "not-optimal", "Weight", "reported cost %d, the optimum is %d", res.Weight, opt)
		}
	}
	for _, withChan := range []bool{false, true} {
		scen := "ParseWCNF+Optimal(nil)"
		if withChan {
			scen = "ParseWCNF+Optimal(chan)"
		}
		var res solver.Result
		var s solver.Interface
		var err error
		if rec.Guard(scen+"/parse", func() { s, err = maxsat.ParseWCNF(strings.NewReader(text)) }) {
			return
		}
		if err != nil {
			if c.Heavy > 0 {
				rec.Count("wcnf_heavier_than_top_rejected", 1)
				return
			}
			rec.Viol(scen+"/parse", "parse-error", "ParseWCNF", "ParseWCNF failed on a well-formed text: %v\n%s", err, text)
			return
		}
		if !withChan {
			if rec.Guard(scen, func() { res = s.Optimal(nil, nil) }) {
				continue
			}
		} else {
			ch := make(chan solver.Result)
			done := make(chan bool)
			go func() {
				done <- rec.Guard(scen, func() { res = s.Optimal(ch, nil) })
			}()
			var last solver.Result
			nb := 0
			for r := range ch {
				last = r
				nb++
			}
			if <-done {
				continue
			}
			rec.Count("stream_results", nb)
			if nb > 0 && (last.Status != res.Status || last.Weight != res.Weight) {
				rec.Viol(scen, "protocol(last!=returned)", "Optimal", "last streamed result (%s, %d) differs from the returned one (%s, %d)", StatusName(last.Status), last.Weight, StatusName(res.Status), res.Weight)
			}
		}
		rec.Count("wcnf_solves", 1)
		check(scen, res)
	}
	if sat && opt > 0 && len(m.Soft) >= 2 {
		rec.Interesting(text)
	}
}

func init() {
	register(&Prop{
		ID:       "C04",
		NumCases: func(tier string) int { return c04Counts[tier] },
		Gen:      c04Gen,
		New:      func() interface{} { return &C04Case{} },
		Run:      c04Run,
		Setup:    func(string) { InstallSeqHooks() },
		Rule: "random weighted partial MaxSAT instances over 2..9 variables (0..7 hard, 0..30 soft constraints, weights 1..5, duplicates, all-hard and all-soft instances): through the API (maxsat.New + Solve, 3 times per instance because the cost function is built in map order) with soft/hard clauses, cardinality constraints with implicit coefficients and PB constraints; and as WCNF text (declared variable count >= highest used, with and without top weight) through ParseWCNF + Optimal(nil) and Optimal(channel); judged by exhaustive minimisation over all assignments. " +
			"non-trivial = hard part satisfiable, optimum > 0 and >= 2 soft constraints; distinct by instance and front-end",
		Assumptions: []string{
			"reference: cost of an assignment = total weight of violated soft constraints, computed by integer arithmetic over all assignments",
			"API constraints use positive coefficients (>= constraints as the Constr type expresses them)",
		},
		Floors: map[string]map[string]int64{
			"quick":    {"optimum_positive": 3000, "hard_unsat": 300},
			"thorough": {"optimum_positive": 60000, "hard_unsat": 6000},
		},
	})
}
