#!/bin/sh
# Reverts each "fix:" commit of /repo in turn (working tree only) and runs the check that found the defect:
# every revived defect must be reported as a VIOLATION. Results go to stdout.
cd /repo
MAP="2837713:C01 de19fef:C02 9749cdd:C03 c073012:C03 9d9a741:C03 8e7a740:C03 5683093:C03 1c998bc:C03 7f99362:C05 23ee5d2:C05 0f7c28e:C04 693b7f4:C04 3927be0:C04 d927612:C07 ae1ff9c:C07 1162be3:C09 c2c6d4f:C09 16f4aac:C10 b3ea469:C11 37c496b:C11 0b8924e:C17 843e84a:C13 0bca713:C13 ed93a48:C18 db866f3:C18 e03f410:C18 438c5f3:C15 bd847dd:C14 f354731:C14 c2b604d:C16 1f95fb4:C16 5e3553a:C11 4156fd0:C08"
for M in $MAP; do
  C=${M%%:*}; P=${M##*:}
  git diff "$C" "$C^" > /verif/logs/revert_$C.diff
  printf "%s %s: " "$C" "$P"
  SKIP_BASELINE=1 /verif/tools/trymutant.sh /verif/logs/revert_$C.diff $P 2>&1 | tail -1
done
