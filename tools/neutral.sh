#!/bin/sh
# Applies each semantics-preserving patch of /verif/neutral to /repo in turn, checks that it builds and passes the
# baseline suite, then runs every quick check: all must stay silent (exit 0). /repo is restored after each patch.
export GOFLAGS=-mod=mod GOPROXY=off GOSUMDB=off GOTOOLCHAIN=local
cd "$(dirname "$0")/.."
LIST="$*"; [ -z "$LIST" ] && LIST=$(ls neutral/*.diff)
for P in $LIST; do
  cd /repo
  [ -n "$(git status --porcelain)" ] && { echo "REPO NOT CLEAN"; exit 2; }
  git apply "/verif/$P" || { echo "$P: DOES NOT APPLY"; continue; }
  if ! (go build ./... && go build -tags verif ./...) >/dev/null 2>&1; then echo "$P: DOES NOT BUILD"; git checkout -q -- .; continue; fi
  if go test -vet=off -count=1 ./... 2>&1 | grep -q '^FAIL\|^--- FAIL'; then echo "$P: BASELINE FAILS"; git checkout -q -- .; continue; fi
  cd /verif
  BAD=""
  for C in C01 C02 C03 C04 C05 C06 C07 C08 C09 C10 C11 C12 C13 C14 C15 C16 C17 C18 C19 C20; do
    OUT=$(bin/vcheck run $C --seed ${VERIF_SEED:-1} 2>&1); RC=$?
    if [ $RC -ne 0 ]; then BAD="$BAD $C(exit $RC: $(echo "$OUT" | grep -E '^SIGNATURE|^INCONCL' | head -2 | tr '\n' ' ' | cut -c1-200))"; fi
  done
  cd /repo && git checkout -q -- .
  if [ -z "$BAD" ]; then echo "$P: all 20 checks silent"; else echo "$P: ALARMS:$BAD"; fi
done
