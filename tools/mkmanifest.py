#!/usr/bin/env python3
"""Regenerates MANIFEST.json from the list of implemented properties (tools/props.json)."""
import json, os, subprocess
here = os.path.dirname(os.path.abspath(__file__))
root = os.path.dirname(here)
props = json.load(open(os.path.join(here, "props.json")))
allids = [json.loads(l)["id"] for l in open(os.path.join(root, "properties.jsonl"))]
hooks_commits = subprocess.run(["git", "-C", "/repo", "log", "--format=%h %s", "--grep=^verif hooks"], capture_output=True, text=True).stdout.strip().split("\n")
checks = []
for pid in allids:
    if pid not in props["implemented"]:
        continue
    p = props["implemented"][pid]
    checks.append({
        "property_id": pid,
        "quick_cmd": "bin/vcheck run %s --tier quick" % pid,
        "thorough_cmd": "bin/vcheck run %s --tier thorough" % pid,
        "evidence_file": "/verif/evidence/%s.json" % pid,
        "replay_cmd_template": "bin/vcheck replay {path}",
        "engine": "vcheck",
        "level_claimed": {
            "category": "exploration",
            "text": p["text"],
            "design_ref": "DESIGN.md section 7, " + pid,
        },
        "level_note": p["note"],
        "technique": p["technique"],
    })
na = [{"property_id": pid, "reason": props["not_applicable"].get(pid, "check not built yet in this session; nothing is claimed for it")} for pid in allids if pid not in props["implemented"]]
man = {
    "version": 1,
    "setup_cmd": "sh tools/setup.sh",
    "hooks": {
        "guard": "verif (Go build tag)",
        "enable": "go build -tags verif (the worker cmd/vworker is linked against /repo through a replace directive and rebuilt from /repo's working tree by every check)",
        "baseline_off_cmd": "cd /repo && GOFLAGS=-mod=mod GOPROXY=off GOSUMDB=off GOTOOLCHAIN=local go test -json -vet=off -count=1 -timeout 25m ./...",
        "source_commits": [c.split()[0] for c in hooks_commits if c],
        "add_only": True,
    },
    "engines": [{
        "name": "vcheck",
        "path": "/verif/cmd/vcheck (driver), /verif/cmd/vworker (worker linked with /repo, tag verif), /verif/internal/{ref,gen,props}",
        "serves_properties": [c["property_id"] for c in checks],
        "kind_free_text": "runtime monitoring: generated and stress workloads run against the real code in child processes; boundary oracles with an independent reference (truth table, DPLL, RUP checker, integer arithmetic), trace checkers over recorded event logs, step-budget hook for termination, Go race detector for the concurrency properties",
    }],
    "checks": checks,
    "notes": "Exit 0: held on everything observed (KNOWN-FINDING lines list recorded defects that occurred). Exit 1 + VIOLATION line: a violation not listed in known_findings.json. Exit 2 + INCONCLUSIVE line: a coverage floor was missed, nothing is claimed for that run. VERIF_SEED and VERIF_TIER are honoured.",
    "not_applicable": na,
}
json.dump(man, open(os.path.join(root, "MANIFEST.json"), "w"), indent=1)
print("MANIFEST.json: %d checks, %d not claimed" % (len(checks), len(na)))
