#!/bin/sh
# usage: tools/trymutant.sh <patch.diff> <Cxx> [more Cxx...]
# Applies a seeded change to /repo, checks that it builds and passes the baseline suite, runs the given
# quick checks against it, and always restores /repo. Prints one line per check: CAUGHT / MISSED.
set -u
export GOFLAGS=-mod=mod GOPROXY=off GOSUMDB=off GOTOOLCHAIN=local
PATCH=$1; shift
cd /repo
if [ -n "$(git status --porcelain)" ]; then echo "REPO NOT CLEAN"; exit 2; fi
if ! git apply --check "$PATCH" 2>/dev/null; then echo "PATCH DOES NOT APPLY: $PATCH"; exit 2; fi
git apply "$PATCH"
trap 'cd /repo && git checkout -q -- . && git clean -fdq -e _mutant >/dev/null 2>&1' EXIT
if ! (go build ./... && go build -tags verif ./...) >/dev/null 2>&1; then echo "DOES NOT BUILD"; exit 2; fi
if [ "${SKIP_BASELINE:-0}" != 1 ]; then
  if go test -vet=off -count=1 ./... 2>&1 | grep -q '^FAIL\|^--- FAIL'; then echo "BASELINE FAILS (not a valid seeded change)"; exit 2; fi
  echo "baseline: pass"
fi
cd /verif
for P in "$@"; do
  OUT=$(timeout 1800 bin/vcheck run "$P" --tier "${TIER:-quick}" --seed "${VERIF_SEED:-1}" 2>&1)
  RC=$?
  if [ $RC -eq 1 ] && echo "$OUT" | grep -q '^VIOLATION'; then
    echo "CAUGHT by $P: hits=$(echo "$OUT" | grep -o '[0-9]* violation(s)' | head -1 | cut -d' ' -f1) in $(echo "$OUT" | grep -c '^SIGNATURE') signature(s); first: $(echo "$OUT" | grep '^SIGNATURE' | head -1 | cut -c1-220)"
  else
    echo "MISSED by $P (exit $RC): $(echo "$OUT" | grep -E "^$P |INCONCL" | cut -c1-200)"
  fi
done
