#!/bin/sh
# usage: fixcommit.sh "fix: message"  — runs the unedited baseline suite with hooks off, then commits /repo
set -e
export GOFLAGS=-mod=mod GOPROXY=off GOSUMDB=off GOTOOLCHAIN=local
cd /repo
go build ./... && go build -tags verif ./...
go test -vet=off -count=1 ./... 2>&1 | tail -6
if go test -vet=off -count=1 ./... 2>&1 | grep -q '^FAIL\|^---  *FAIL'; then echo "BASELINE FAILS"; exit 1; fi
git add -A && git commit -qm "$1" && git log --oneline | head -1
