#!/bin/sh
# Runs every quick check at the given seeds and prints, per property, each coverage floor with the minimum observed value.
cd "$(dirname "$0")/.."
mkdir -p logs/floors
for S in $1; do
  for P in C01 C02 C03 C04 C05 C06 C07 C08 C09 C10 C11 C12 C13 C14 C15 C16 C17 C18 C19 C20; do
    bin/vcheck run $P --seed $S >/dev/null 2>&1; cp evidence/$P.json logs/floors/$P.$S.json
  done
done
python3 - <<'PY'
import json,glob,collections
mins=collections.defaultdict(dict)
for f in glob.glob('logs/floors/*.json'):
    d=json.load(open(f)); p=d['property_id']; c=d['coverage']
    for k,fl in (c.get('coverage_floors') or {}).items():
        v=c['observed'].get(k, len([]) if k!='distinct_nontrivial' else c['distinct_nontrivial'])
        cur=mins[p].get(k)
        mins[p][k]=(fl, v if cur is None else min(cur[1],v))
for p in sorted(mins):
    print(p, ' '.join('%s:floor=%d,min=%d%s'%(k,fl,v,'  <<< TIGHT' if v<2*fl else '') for k,(fl,v) in sorted(mins[p].items())))
PY
