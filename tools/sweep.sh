#!/bin/sh
# usage: tools/sweep.sh "<seeds>" [tier] — runs every check at each seed on the current tree; one summary line per run.
cd "$(dirname "$0")/.."
for S in $1; do
  for P in C01 C02 C03 C04 C05 C06 C07 C08 C09 C10 C11 C12 C13 C14 C15 C16 C17 C18 C19 C20; do
    OUT=$(bin/vcheck run $P --tier ${2:-quick} --seed $S 2>&1); RC=$?
    echo "seed=$S $P exit=$RC $(echo "$OUT" | grep -E "^$P " | sed 's/.*: //' | cut -c1-150) $(echo "$OUT" | grep -E '^INCONCL|^KNOWN' | cut -c1-200)"
  done
done
