#!/usr/bin/env python3
"""Prints the markdown tables of DESIGN.md section 8 from logs/revert_sensitivity.txt and seeded/*/meta.json."""
import json, glob, os, re, subprocess
root = os.path.dirname(os.path.dirname(os.path.abspath(__file__)))
print("### 8.1 Revived defects (each `fix:` commit reverted in the working tree, quick tier, VERIF_SEED=1)\n")
print("| fix commit | check | outcome | first signature |")
print("|---|---|---|---|")
subj = dict(l.split(" ", 1) for l in subprocess.run(["git", "-C", "/repo", "log", "--format=%h %s"], capture_output=True, text=True).stdout.strip().split("\n"))
for f in ("notes/revert_sensitivity.txt", "notes/manual_reverts.txt"):
    p = os.path.join(root, f)
    if not os.path.exists(p):
        continue
    for l in open(p):
        m = re.match(r"(\w+) (C\d+)( \(manual revert\))?: (CAUGHT|MISSED|PATCH DOES NOT APPLY)(.*)", l)
        if not m or m.group(4) == "PATCH DOES NOT APPLY":
            continue
        sig = re.search(r"scenario=.*", m.group(5))
        sig = sig.group(0)[:110] if sig else ""
        how = "reverted by hand (later commits touch the same lines)" if m.group(3) else ""
        print("| %s %s | %s | %s %s | `%s` |" % (m.group(1), subj.get(m.group(1), "")[5:70], m.group(2), m.group(4).lower(), how, sig))
print("\n### 8.2 Seeded changes written by independent sub-agents\n")
print("| id | change | needs, in order to manifest | caught by |")
print("|---|---|---|---|")
for f in sorted(glob.glob(os.path.join(root, "seeded/*/meta.json"))):
    m = json.load(open(f))
    print("| %s | %s | %s | %s |" % (m["id"], m["change"], m["needs_to_manifest"], m["caught_by"]))
