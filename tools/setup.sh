#!/bin/sh
# Builds the driver and a first worker from files on disk only (offline).
set -e
cd "$(dirname "$0")/.."
export GOFLAGS=-mod=mod GOPROXY=off GOSUMDB=off GOTOOLCHAIN=local
mkdir -p bin .build evidence replay logs
go build -o bin/vcheck ./cmd/vcheck
bin/vcheck build
echo "setup ok"
