#!/bin/sh
# Runs every seeded change of /verif/seeded against the quick check of its property (tools/trymutant.sh, baseline
# suite skipped: it was verified when the change was kept). One line per change. Uses /repo: run nothing else meanwhile.
cd "$(dirname "$0")/.."
for D in seeded/*/; do
  ID=$(basename $D); P=$(echo $ID | cut -d- -f1)
  printf "%s: " $ID
  SKIP_BASELINE=1 tools/trymutant.sh /verif/$D/patch.diff $P 2>&1 | tail -1 | cut -c1-230
done
