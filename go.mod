module verif

go 1.21

require github.com/crillab/gophersat v0.0.0

replace github.com/crillab/gophersat => /repo
