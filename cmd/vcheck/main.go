// Command vcheck is the driver of the verification harness. It never links gophersat: it rebuilds the
// worker from /repo's current working tree (build tag verif), runs one worker process per batch of
// cases, attributes crashes and hangs to the case that was running, matches violations against
// known_findings.json, writes the evidence file and replay files and sets the exit status.
package main

import (
	"bufio"
	"bytes"
	"encoding/json"
	"flag"
	"fmt"
	"os"
	"os/exec"
	"path/filepath"
	"regexp"
	"sort"
	"strconv"
	"strings"
	"sync"
	"syscall"
	"time"
)

// repoDir is the gophersat tree the worker is built from: /repo, unless VERIF_REPO names a snapshot of it
// (used only by background exploration runs, never by the registered checks).
var repoDir = "/repo"

var verifDir string

func goEnv() []string {
	env := os.Environ()
	env = append(env, "GOFLAGS=-mod=mod", "GOPROXY=off", "GOSUMDB=off", "GOTOOLCHAIN=local", "CGO_ENABLED=1")
	return env
}

func die(format string, args ...interface{}) {
	fmt.Fprintf(os.Stderr, "vcheck: "+format+"\n", args...)
	os.Exit(3)
}

func main() {
	exe, _ := os.Executable()
	verifDir = filepath.Dir(filepath.Dir(exe))
	if v := os.Getenv("VERIF_DIR"); v != "" {
		verifDir = v
	}
	if _, err := os.Stat(filepath.Join(verifDir, "go.mod")); err != nil {
		wd, _ := os.Getwd()
		verifDir = wd
	}
	if len(os.Args) < 2 {
		die("usage: vcheck run <Cxx> [--tier quick|thorough] [--seed N] | replay <file> | build")
	}
	switch os.Args[1] {
	case "run":
		os.Exit(cmdRun(os.Args[2:]))
	case "replay":
		os.Exit(cmdReplay(os.Args[2:]))
	case "build":
		if _, err := buildWorker(false); err != nil {
			die("%v", err)
		}
	default:
		die("unknown command %q", os.Args[1])
	}
}

// buildWorker rebuilds the worker from /repo's working tree.
func buildWorker(race bool) (string, error) {
	out := filepath.Join(verifDir, ".build", "vworker")
	args := []string{"build", "-tags", "verif"}
	if alt := os.Getenv("VERIF_REPO"); alt != "" && alt != "/repo" {
		repoDir = alt
		mod, err := os.ReadFile(filepath.Join(verifDir, "go.mod"))
		if err != nil {
			return "", err
		}
		os.MkdirAll(filepath.Join(verifDir, ".build"), 0o755)
		altMod := filepath.Join(verifDir, ".build", "go.alt.mod")
		os.WriteFile(altMod, []byte(strings.Replace(string(mod), "=> /repo", "=> "+alt, 1)), 0o644)
		os.WriteFile(filepath.Join(verifDir, ".build", "go.alt.sum"), nil, 0o644)
		args = append(args, "-modfile="+altMod)
	}
	if race {
		out += "-race"
		args = append(args, "-race")
	}
	args = append(args, "-o", out, "./cmd/vworker")
	cmd := exec.Command("go", args...)
	cmd.Dir = verifDir
	cmd.Env = goEnv()
	if b, err := cmd.CombinedOutput(); err != nil {
		return "", fmt.Errorf("cannot build worker from %s: %v\n%s", repoDir, err, b)
	}
	return out, nil
}

type propInfo struct {
	N           int              `json:"n"`
	Race        bool             `json:"race"`
	Rule        string           `json:"rule"`
	Assumptions []string         `json:"assumptions"`
	Floors      map[string]int64 `json:"floors"`
	Procs       int              `json:"procs"`
}

type violation struct {
	Scenario string          `json:"scenario"`
	Kind     string          `json:"kind"`
	Site     string          `json:"site"`
	Detail   string          `json:"detail"`
	Idx      int             `json:"idx"`
	Case     json.RawMessage `json:"case,omitempty"`
	Lo, Hi   int             `json:"-"`
}

type finding struct {
	Status     string          `json:"status"` // known | fixed
	Property   string          `json:"property"`
	Properties []string        `json:"properties,omitempty"`
	Scenario   string          `json:"scenario,omitempty"`
	Kind       string          `json:"kind,omitempty"`
	Site       string          `json:"site,omitempty"`
	What       string          `json:"what"`
	Commit     string          `json:"commit,omitempty"`
	Witness    json.RawMessage `json:"witness,omitempty"`
}

func globMatch(pat, s string) bool {
	if pat == "" || pat == "*" {
		return true
	}
	if strings.HasSuffix(pat, "*") && strings.HasPrefix(pat, "*") && len(pat) > 2 {
		return strings.Contains(s, pat[1:len(pat)-1])
	}
	if strings.HasSuffix(pat, "*") {
		return strings.HasPrefix(s, pat[:len(pat)-1])
	}
	if strings.HasPrefix(pat, "*") {
		return strings.HasSuffix(s, pat[1:])
	}
	return pat == s
}

func (f *finding) matches(prop string, v *violation) bool {
	if f.Status != "known" {
		return false
	}
	ok := f.Property == prop
	for _, p := range f.Properties {
		if p == prop {
			ok = true
		}
	}
	return ok && globMatch(f.Scenario, v.Scenario) && globMatch(f.Kind, v.Kind) && globMatch(f.Site, v.Site)
}

func loadFindings() []finding {
	b, err := os.ReadFile(filepath.Join(verifDir, "known_findings.json"))
	if err != nil {
		return nil
	}
	var doc struct {
		Findings []finding `json:"findings"`
	}
	if err := json.Unmarshal(b, &doc); err != nil {
		die("known_findings.json: %v", err)
	}
	return doc.Findings
}

type runState struct {
	sync.Mutex
	prop, tier string
	seed       uint64
	info       propInfo
	worker     string
	logDir     string
	evaluated  int
	nontriv    map[uint64]bool
	counters   map[string]int64
	maxes      map[string]int64
	samples    []json.RawMessage
	viols      []violation
	inconcl    []string
	crashes    int
	watchdogs  int
}

func cmdRun(args []string) int {
	fs := flag.NewFlagSet("run", flag.ExitOnError)
	tier := fs.String("tier", "", "quick or thorough")
	seedFlag := fs.Int64("seed", -1, "seed (default: VERIF_SEED or 1)")
	jobs := fs.Int("jobs", 16, "parallel workers")
	if len(args) < 1 {
		die("usage: vcheck run <Cxx> [--tier t] [--seed n]")
	}
	prop := args[0]
	fs.Parse(args[1:])
	if *tier == "" {
		*tier = os.Getenv("VERIF_TIER")
		if *tier == "" {
			*tier = "quick"
		}
	}
	if *tier != "quick" && *tier != "thorough" {
		die("bad tier %q", *tier)
	}
	seed := uint64(1)
	if s := os.Getenv("VERIF_SEED"); s != "" {
		if v, err := strconv.ParseInt(s, 10, 64); err == nil {
			seed = uint64(v)
		}
	}
	if *seedFlag >= 0 {
		seed = uint64(*seedFlag)
	}
	start := time.Now()
	st := &runState{prop: prop, tier: *tier, seed: seed, nontriv: map[uint64]bool{}, counters: map[string]int64{}, maxes: map[string]int64{}}

	// 1. rebuild the worker from /repo's current working tree
	w, err := buildWorker(false)
	if err != nil {
		fmt.Println(err)
		return 3
	}
	out, err := exec.Command(w, "info", prop, *tier).Output()
	if err != nil {
		die("worker info failed: %v", err)
	}
	if err := json.Unmarshal(out, &st.info); err != nil {
		die("worker info: %v", err)
	}
	if st.info.Race {
		if w, err = buildWorker(true); err != nil {
			fmt.Println(err)
			return 3
		}
	}
	st.worker = w
	if prop == "C19" {
		cli := filepath.Join(verifDir, ".build", "gophersat")
		cmd := exec.Command("go", "build", "-tags", "verif", "-o", cli, ".")
		cmd.Dir = repoDir
		cmd.Env = goEnv()
		if b, err := cmd.CombinedOutput(); err != nil {
			fmt.Printf("cannot build the gophersat binary from %s: %v\n%s", repoDir, err, b)
			return 3
		}
		os.Setenv("VERIF_CLI", cli)
	}
	st.logDir = filepath.Join(verifDir, "logs", fmt.Sprintf("%s-%s-%d", prop, *tier, seed))
	os.RemoveAll(st.logDir)
	os.MkdirAll(st.logDir, 0o755)

	// 2. fixed case list, split into batches
	n := st.info.N
	if lim := os.Getenv("VERIF_MAXCASES"); lim != "" { // debugging aid only
		if v, err := strconv.Atoi(lim); err == nil && v < n {
			n = v
		}
	}
	nbBatches := *jobs * 6
	if nbBatches > n {
		nbBatches = n
	}
	if nbBatches < 1 {
		nbBatches = 1
	}
	type batch struct{ lo, hi, id int }
	var batches []batch
	for i := 0; i < nbBatches; i++ {
		lo, hi := i*n/nbBatches, (i+1)*n/nbBatches
		if hi > lo {
			batches = append(batches, batch{lo, hi, i})
		}
	}
	ch := make(chan batch)
	var wg sync.WaitGroup
	for j := 0; j < *jobs; j++ {
		wg.Add(1)
		go func() {
			defer wg.Done()
			for b := range ch {
				st.runBatch(b.id, b.lo, b.hi)
			}
		}()
	}
	for _, b := range batches {
		ch <- b
	}
	close(ch)
	wg.Wait()
	st.collectRaces()

	// 3. verdict
	return st.finish(start)
}

var curRe = regexp.MustCompile(`^(\d{12}) (\d{12})\n`)

func readCur(path string) (idx int, raw []byte, ok bool) {
	b, err := os.ReadFile(path)
	if err != nil {
		return 0, nil, false
	}
	m := curRe.FindSubmatch(b)
	if m == nil {
		return 0, nil, false
	}
	idx, _ = strconv.Atoi(string(m[1]))
	ln, _ := strconv.Atoi(string(m[2]))
	body := b[len(m[0]):]
	if ln > len(body) {
		return idx, nil, true
	}
	return idx, body[:ln], true
}

func watchdogSecs(tier string) time.Duration {
	if s := os.Getenv("VERIF_WATCHDOG"); s != "" {
		if v, err := strconv.Atoi(s); err == nil {
			return time.Duration(v) * time.Second
		}
	}
	if tier == "thorough" {
		return 600 * time.Second
	}
	return 240 * time.Second
}

// runBatch runs cases [lo,hi), restarting a worker after each crash or hang.
func (st *runState) runBatch(id, lo, hi int) {
	for attempt := 0; lo < hi; attempt++ {
		base := filepath.Join(st.logDir, fmt.Sprintf("b%04d.%d", id, attempt))
		logPath, curPath, errPath := base+".log", base+".cur", base+".err"
		errf, _ := os.Create(errPath)
		cmd := exec.Command(st.worker, "run", st.prop, st.tier, strconv.FormatUint(st.seed, 10), strconv.Itoa(lo), strconv.Itoa(hi), logPath, curPath)
		cmd.Stdout = errf
		cmd.Stderr = errf
		cmd.Env = append(os.Environ(), "VERIF_SCRATCH="+st.logDir, "GOTRACEBACK=all", "GORACE=halt_on_error=0 exitcode=0 log_path="+base+".race")
		if err := cmd.Start(); err != nil {
			die("cannot start worker: %v", err)
		}
		done := make(chan error, 1)
		go func() { done <- cmd.Wait() }()
		// progress-based watchdog: a case that does not finish within the (generous) delay is inconclusive
		hung := false
		lastIdx, lastChange := -1, time.Now()
		tick := time.NewTicker(2 * time.Second)
		var werr error
	loop:
		for {
			select {
			case werr = <-done:
				break loop
			case <-tick.C:
				idx, _, ok := readCur(curPath)
				if ok && idx != lastIdx {
					lastIdx, lastChange = idx, time.Now()
				} else if time.Since(lastChange) > watchdogSecs(st.tier) {
					hung = true
					cmd.Process.Signal(syscall.SIGQUIT)
					select {
					case werr = <-done:
					case <-time.After(20 * time.Second):
						cmd.Process.Kill()
						werr = <-done
					}
					break loop
				}
			}
		}
		tick.Stop()
		errf.Close()
		finished := st.absorbLog(logPath, lo, hi)
		if finished && werr == nil {
			return
		}
		// crash or hang: attribute to the current case
		idx, raw, ok := readCur(curPath)
		if !ok {
			st.Lock()
			st.inconcl = append(st.inconcl, fmt.Sprintf("worker for [%d,%d) died before its first case: %v", lo, hi, werr))
			st.Unlock()
			return
		}
		stderr, _ := os.ReadFile(errPath)
		st.Lock()
		if hung {
			st.watchdogs++
			if deadlocked(string(stderr)) {
				st.viols = append(st.viols, violation{Scenario: "worker", Kind: "protocol(deadlock)", Site: deadlockSite(string(stderr)), Detail: "watchdog: every goroutine of the case is parked\n" + tail(string(stderr), 60), Idx: idx, Case: raw})
			} else {
				st.inconcl = append(st.inconcl, fmt.Sprintf("case %d: wall-clock watchdog fired (inconclusive)", idx))
			}
		} else {
			st.crashes++
			v := classifyCrash(string(stderr))
			v.Idx, v.Case = idx, raw
			st.viols = append(st.viols, v)
		}
		st.Unlock()
		lo = idx + 1
	}
}

func tail(s string, n int) string {
	lines := strings.Split(s, "\n")
	if len(lines) > n {
		lines = lines[:n]
	}
	return strings.Join(lines, "\n")
}

func deadlocked(stderr string) bool {
	return strings.Contains(stderr, "all goroutines are asleep")
}

func deadlockSite(stderr string) string {
	return siteFromStack(stderr)
}

var numRe = regexp.MustCompile(`[0-9]+`)
var hexRe = regexp.MustCompile(`0x[0-9a-f]+`)

func msgClass(msg string) string {
	msg = hexRe.ReplaceAllString(msg, "#")
	msg = numRe.ReplaceAllString(msg, "#")
	if len(msg) > 120 {
		msg = msg[:120]
	}
	return msg
}

func siteFromStack(stack string) string {
	for _, l := range strings.Split(stack, "\n") {
		l = strings.TrimSpace(l)
		if strings.HasPrefix(l, "github.com/crillab/gophersat/") {
			if strings.Contains(l, "erifStep") || strings.Contains(l, "erifGlobalStep") || strings.Contains(l, ".verif") || strings.Contains(l, ".Verif") {
				continue
			}
			if i := strings.LastIndex(l, "("); i > 0 {
				l = l[:i]
			}
			l = strings.TrimPrefix(l, "github.com/crillab/gophersat/")
			for strings.HasSuffix(l, ".func1") || strings.HasSuffix(l, ".func2") {
				l = l[:len(l)-6]
			}
			return l
		}
	}
	return "?"
}

const budgetMsg = "verif: step budget exceeded at "

// classifyCrash turns the stderr of a dead worker into a violation.
func classifyCrash(stderr string) violation {
	first := ""
	for _, l := range strings.Split(stderr, "\n") {
		if strings.HasPrefix(l, "panic: ") || strings.HasPrefix(l, "fatal error: ") {
			first = l
			break
		}
	}
	detail := tail(stderr[strings.Index(stderr, first):], 50)
	if i := strings.Index(first, budgetMsg); i >= 0 {
		point := strings.TrimSpace(first[i+len(budgetMsg):])
		point = strings.TrimSuffix(point, " [recovered]")
		return violation{Scenario: "worker", Kind: "step-budget", Site: point, Detail: "non-termination in a library goroutine: " + detail}
	}
	if strings.Contains(first, "all goroutines are asleep") {
		return violation{Scenario: "worker", Kind: "protocol(deadlock)", Site: siteFromStack(stderr), Detail: detail}
	}
	if first == "" {
		return violation{Scenario: "worker", Kind: "crash", Site: "?", Detail: "worker died without a panic message:\n" + tail(stderr, 40)}
	}
	kind := "panic"
	if strings.HasPrefix(first, "fatal error: ") {
		kind = "fatal"
	}
	// the stack of the panicking goroutine follows the first "goroutine N [running]" line
	stack := stderr
	if i := strings.Index(stderr, "[running]"); i >= 0 {
		stack = stderr[i:]
	}
	msg := strings.TrimPrefix(strings.TrimPrefix(first, "panic: "), "fatal error: ")
	if i := strings.Index(msg, " [recovered]"); i >= 0 {
		msg = msg[:i]
	}
	return violation{Scenario: "worker", Kind: kind, Site: siteFromStack(stack) + ": " + msgClass(msg), Detail: "in a library goroutine or unrecoverable: " + detail}
}

// absorbLog merges a worker log; returns true when the worker logged completion.
func (st *runState) absorbLog(path string, lo, hi int) bool {
	f, err := os.Open(path)
	if err != nil {
		return false
	}
	defer f.Close()
	sc := bufio.NewScanner(f)
	sc.Buffer(make([]byte, 1<<20), 1<<28)
	done := false
	st.Lock()
	defer st.Unlock()
	for sc.Scan() {
		line := sc.Bytes()
		var head struct {
			T string `json:"t"`
		}
		if json.Unmarshal(line, &head) != nil {
			continue
		}
		switch head.T {
		case "s":
			var s struct {
				N        int               `json:"n"`
				NonTriv  []uint64          `json:"nt"`
				Counters map[string]int64  `json:"c"`
				Maxes    map[string]int64  `json:"m"`
				Samples  []json.RawMessage `json:"samples"`
			}
			json.Unmarshal(line, &s)
			st.evaluated += s.N
			for _, h := range s.NonTriv {
				st.nontriv[h] = true
			}
			for k, v := range s.Counters {
				st.counters[k] += v
			}
			for k, v := range s.Maxes {
				if v > st.maxes[k] {
					st.maxes[k] = v
				}
			}
			if len(st.samples) < 6 {
				st.samples = append(st.samples, s.Samples...)
			}
		case "v":
			var v struct {
				Idx  int             `json:"i"`
				V    violation       `json:"v"`
				Case json.RawMessage `json:"case"`
			}
			json.Unmarshal(line, &v)
			v.V.Idx, v.V.Case = v.Idx, v.Case
			v.V.Lo, v.V.Hi = lo, hi
			st.viols = append(st.viols, v.V)
		case "inc":
			var v struct {
				Idx    int    `json:"i"`
				Reason string `json:"reason"`
			}
			json.Unmarshal(line, &v)
			st.inconcl = append(st.inconcl, fmt.Sprintf("case %d: %s", v.Idx, v.Reason))
		case "done":
			done = true
		}
	}
	return done
}

var raceFrameRe = regexp.MustCompile(`^\s+(github\.com/crillab/gophersat/[^\s(]+(?:\(\*?[A-Za-z]+\))?[^\s(]*)\(`)

// collectRaces turns the race detector's reports into violations, de-duplicated by the pair of
// accessing functions and the pair of outermost library entry points (line numbers stripped).
func (st *runState) collectRaces() {
	if !st.info.Race {
		return
	}
	files, _ := filepath.Glob(filepath.Join(st.logDir, "*.race.*"))
	seen := map[string]bool{}
	for _, f := range files {
		b, err := os.ReadFile(f)
		if err != nil {
			continue
		}
		blocks := strings.Split(string(b), "WARNING: DATA RACE")
		for _, blk := range blocks[1:] {
			st.counters["race_reports"]++
			key := raceKey(blk)
			if key == "" { // no gophersat frame in either access: a race of the harness itself
				st.counters["harness_only_race_reports"]++
				st.inconcl = append(st.inconcl, "race report without any gophersat frame (harness): "+filepath.Base(f))
				continue
			}
			if seen[key] {
				continue
			}
			seen[key] = true
			base := filepath.Base(f)
			st.viols = append(st.viols, violation{Scenario: "race-detector", Kind: "race", Site: key, Detail: "WARNING: DATA RACE" + tail(blk, 60) + "\n(log " + base + ")", Idx: -1})
		}
	}
}

func raceKey(blk string) string {
	// sections are separated by blank lines; the first two are the conflicting accesses
	secs := strings.Split(blk, "\n\n")
	var parts []string
	for _, sec := range secs {
		if len(parts) == 2 {
			break
		}
		lines := strings.Split(sec, "\n")
		inner, outer := "", ""
		for _, l := range lines {
			t := strings.TrimSpace(l)
			if strings.HasPrefix(t, "github.com/crillab/gophersat/") {
				if i := strings.LastIndex(t, "("); i > 0 {
					t = t[:i]
				}
				t = strings.TrimPrefix(t, "github.com/crillab/gophersat/")
				if inner == "" {
					inner = t
				}
				outer = t
			}
		}
		if inner != "" {
			parts = append(parts, inner+"<-"+outer)
		}
	}
	sort.Strings(parts)
	return strings.Join(parts, " | ")
}

func (st *runState) finish(start time.Time) int {
	findings := loadFindings()
	replayDir := filepath.Join(verifDir, "replay")
	os.MkdirAll(replayDir, 0o755)
	if old, _ := filepath.Glob(filepath.Join(replayDir, fmt.Sprintf("%s-%s-s%d-*.json", st.prop, st.tier, st.seed))); len(old) > 0 {
		for _, f := range old { // replay files of an earlier run of the same check
			os.Remove(f)
		}
	}
	sort.SliceStable(st.viols, func(i, j int) bool { return st.viols[i].Idx < st.viols[j].Idx })
	knownHits := map[int]int{}
	type sig struct{ scen, kind, site string }
	newSigs := map[sig]int{}
	var newViols []violation
	for i := range st.viols {
		v := &st.viols[i]
		matched := false
		for fi := range findings {
			if findings[fi].matches(st.prop, v) {
				knownHits[fi]++
				matched = true
				break
			}
		}
		if !matched {
			s := sig{v.Scenario, v.Kind, v.Site}
			newSigs[s]++
			if newSigs[s] <= 3 && len(newViols) < 40 { // at most 3 witnesses per signature
				newViols = append(newViols, *v)
			}
		}
	}
	for fi, cnt := range knownHits {
		fmt.Printf("KNOWN-FINDING: property=%s %s (scenario=%s kind=%s site=%s; %d occurrence(s) in this run)\n", st.prop, findings[fi].What, findings[fi].Scenario, findings[fi].Kind, findings[fi].Site, cnt)
	}
	totalNew := 0
	for _, c := range newSigs {
		totalNew += c
	}
	for i, v := range newViols {
		path := filepath.Join(replayDir, fmt.Sprintf("%s-%s-s%d-i%d-%d.json", st.prop, st.tier, st.seed, v.Idx, i))
		doc := map[string]interface{}{"property": st.prop, "tier": st.tier, "seed": st.seed, "idx": v.Idx, "scenario": v.Scenario, "kind": v.Kind, "site": v.Site, "detail": v.Detail, "case": v.Case}
		if v.Idx < 0 {
			doc["note"] = "reported by the race detector for the whole run; replay re-runs the check"
		}
		b, _ := json.MarshalIndent(doc, "", " ")
		os.WriteFile(path, b, 0o644)
		fmt.Printf("VIOLATION property=%s replay=%s\n", st.prop, path)
		fmt.Printf("  scenario=%s kind=%s site=%s\n  %s\n", v.Scenario, v.Kind, v.Site, strings.ReplaceAll(tail(v.Detail, 12), "\n", "\n  "))
	}
	if len(newSigs) > 0 {
		type sc struct {
			s sig
			c int
		}
		var l []sc
		for s, c := range newSigs {
			l = append(l, sc{s, c})
		}
		sort.Slice(l, func(i, j int) bool { return l[i].c > l[j].c })
		for _, e := range l {
			fmt.Printf("SIGNATURE %6d x scenario=%s kind=%s site=%s\n", e.c, e.s.scen, e.s.kind, e.s.site)
		}
	}
	// coverage floors
	var missed []string
	if os.Getenv("VERIF_MAXCASES") == "" {
		for k, floor := range st.info.Floors {
			val := st.counters[k]
			if k == "distinct_nontrivial" {
				val = int64(len(st.nontriv))
			}
			if val < floor {
				missed = append(missed, fmt.Sprintf("%s=%d < %d", k, val, floor))
			}
		}
	}
	sort.Strings(missed)
	inconclusive := len(missed) > 0 || (st.evaluated > 0 && len(st.inconcl)*100 > st.evaluated)
	wall := time.Since(start).Seconds()

	// evidence
	samples := st.samples
	if len(samples) > 5 {
		samples = samples[:5]
	}
	var sampleVals []interface{}
	for _, s := range samples {
		var v interface{}
		json.Unmarshal(s, &v)
		sampleVals = append(sampleVals, v)
	}
	if len(sampleVals) == 0 {
		sampleVals = append(sampleVals, "no non-trivial case was observed")
	}
	cov := map[string]interface{}{
		"evaluations":              st.evaluated,
		"distinct_nontrivial":      len(st.nontriv),
		"rule":                     st.info.Rule,
		"samples":                  sampleVals,
		"exhaustive":               false,
		"observed":                 st.counters,
		"observed_max":             st.maxes,
		"worker_crashes":           st.crashes,
		"watchdog_kills":           st.watchdogs,
		"inconclusive_cases":       len(st.inconcl),
		"coverage_floors":          st.info.Floors,
		"floors_missed":            missed,
		"known_finding_hits":       len(knownHits),
		"new_violation_signatures": len(newSigs),
	}
	if len(st.inconcl) > 0 {
		l := st.inconcl
		if len(l) > 10 {
			l = l[:10]
		}
		cov["inconclusive_examples"] = l
	}
	verdict := "held on everything observed"
	if totalNew > 0 {
		verdict = "violated"
	} else if inconclusive {
		verdict = "inconclusive"
	}
	cov["verdict"] = verdict
	ev := map[string]interface{}{
		"property_id": st.prop,
		"tier":        st.tier,
		"seed":        st.seed,
		"level":       "exploration",
		"coverage":    cov,
		"assumptions": st.info.Assumptions,
		"wall_s":      wall,
		"violations":  totalNew,
	}
	b, _ := json.MarshalIndent(ev, "", " ")
	os.MkdirAll(filepath.Join(verifDir, "evidence"), 0o755)
	os.WriteFile(filepath.Join(verifDir, "evidence", st.prop+".json"), append(b, '\n'), 0o644)

	fmt.Printf("%s %s seed=%d: %d cases, %d distinct non-trivial, %d violation(s) in %d signature(s), %d known-finding signature(s), %d inconclusive, %d crash(es), %.1fs\n",
		st.prop, st.tier, st.seed, st.evaluated, len(st.nontriv), totalNew, len(newSigs), len(knownHits), len(st.inconcl), st.crashes, wall)
	var keys []string
	for k := range st.counters {
		keys = append(keys, k)
	}
	sort.Strings(keys)
	var sb bytes.Buffer
	for _, k := range keys {
		fmt.Fprintf(&sb, " %s=%d", k, st.counters[k])
	}
	fmt.Printf("observed:%s\n", sb.String())
	if totalNew > 0 {
		return 1
	}
	if inconclusive {
		fmt.Printf("INCONCLUSIVE property=%s %s\n", st.prop, strings.Join(missed, "; "))
		return 2
	}
	os.RemoveAll(st.logDir)
	return 0
}

func cmdReplay(args []string) int {
	if len(args) != 1 {
		die("usage: vcheck replay <file>")
	}
	b, err := os.ReadFile(args[0])
	if err != nil {
		die("%v", err)
	}
	var doc struct {
		Property string          `json:"property"`
		Tier     string          `json:"tier"`
		Seed     uint64          `json:"seed"`
		Idx      int             `json:"idx"`
		Case     json.RawMessage `json:"case"`
	}
	if err := json.Unmarshal(b, &doc); err != nil {
		die("%v", err)
	}
	if doc.Idx < 0 || len(doc.Case) == 0 || string(doc.Case) == "null" {
		// no single case (race report): re-run the whole check at that seed
		return cmdRun([]string{doc.Property, "--tier", doc.Tier, "--seed", strconv.FormatUint(doc.Seed, 10)})
	}
	w, err := buildWorker(false)
	if err != nil {
		fmt.Println(err)
		return 3
	}
	out, _ := exec.Command(w, "info", doc.Property, doc.Tier).Output()
	var info propInfo
	json.Unmarshal(out, &info)
	if info.Race {
		if w, err = buildWorker(true); err != nil {
			fmt.Println(err)
			return 3
		}
	}
	tmp := filepath.Join(verifDir, "logs", "replay-case.json")
	os.MkdirAll(filepath.Dir(tmp), 0o755)
	os.WriteFile(tmp, doc.Case, 0o644)
	cmd := exec.Command(w, "replay", doc.Property, doc.Tier, tmp)
	cmd.Stdout, cmd.Stderr = os.Stdout, os.Stderr
	cmd.Env = append(os.Environ(), "GOTRACEBACK=all")
	if err := cmd.Run(); err != nil {
		fmt.Printf("VIOLATION property=%s replay=%s\n", doc.Property, args[0])
		return 1
	}
	fmt.Printf("replay of %s: no violation\n", args[0])
	return 0
}
