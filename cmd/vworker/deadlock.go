package main

import (
	"fmt"
	"os"
	"regexp"
	"runtime"
	"strings"
	"sync/atomic"
	"time"
)

// The deadlock monitor decides "the current case can never make progress again" from a state, not from a
// delay: it fires only when two successive stop-the-world snapshots of all goroutines, taken during the same
// case, show the same goroutines and every one of them (the monitor aside) parked on a channel or sync
// operation. Neither gophersat nor the harness uses timers, network or signals, so nothing can wake such a
// set of goroutines: it is the situation the Go runtime reports as "all goroutines are asleep", which the
// runtime itself does not detect reliably in race-detector builds. The wall clock only chooses when to look.
// The report goes to stderr in the runtime's format and the worker exits; the driver attributes it to the
// case recorded in the cur file.

var currentCase atomic.Int64

var goroutineHeader = regexp.MustCompile(`(?m)^goroutine (\d+) \[([^\]]*)\]:$`)

func parkedForever(state string) bool {
	if i := strings.Index(state, ","); i >= 0 { // "chan receive, 2 minutes", "select, locked to thread"
		state = state[:i]
	}
	switch state {
	case "chan receive", "chan send", "select", "select (no cases)", "chan receive (nil chan)", "chan send (nil chan)",
		"semacquire", "sync.Mutex.Lock", "sync.RWMutex.Lock", "sync.RWMutex.RLock", "sync.Cond.Wait", "sync.WaitGroup.Wait":
		return true
	}
	return false
}

// snapshot returns the ids of all goroutines but the caller when all of them are parked, and the dump.
func snapshot() (ids string, allParked bool, dump string) {
	buf := make([]byte, 1<<20)
	buf = buf[:runtime.Stack(buf, true)]
	dump = string(buf)
	ms := goroutineHeader.FindAllStringSubmatch(dump, -1)
	if len(ms) < 2 {
		return "", false, dump
	}
	allParked = true
	for _, m := range ms[1:] { // the first block is the monitor itself
		ids += m[1] + " "
		if !parkedForever(m[2]) {
			allParked = false
		}
	}
	return ids, allParked, dump
}

func startDeadlockMonitor() {
	go func() {
		lastCase, since := int64(-1), 0
		prevIDs := ""
		for {
			time.Sleep(time.Second)
			c := currentCase.Load()
			if c != lastCase {
				lastCase, since, prevIDs = c, 0, ""
				continue
			}
			since++
			if since < 3 {
				continue
			}
			ids, parked, dump := snapshot()
			if !parked || currentCase.Load() != c {
				prevIDs = ""
				continue
			}
			if prevIDs == ids {
				// drop the monitor's own block so that the first stack shown is a parked one
				if i := strings.Index(dump, "\n\ngoroutine "); i >= 0 {
					dump = dump[i+2:]
				}
				fmt.Fprintf(os.Stderr, "fatal error: all goroutines are asleep - deadlock! (verif monitor: case %d, two identical snapshots with every goroutine parked)\n\n%s\n", c, dump)
				os.Exit(2)
			}
			prevIDs = ids
		}
	}()
}
