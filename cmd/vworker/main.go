// Command vworker runs a range of cases of one property against the gophersat code it is linked with
// (built from /repo's working tree with the verif tag). It is driven by vcheck, one process per batch,
// so that a crash, a fatal runtime error or a hang in the library only loses the current case.
package main

import (
	"encoding/json"
	"fmt"
	"os"
	"runtime"
	"strconv"
	"time"

	"verif/internal/gen"
	"verif/internal/props"
)

type summary struct {
	T        string            `json:"t"`
	Upto     int               `json:"upto"`
	N        int               `json:"n"`
	NonTriv  []uint64          `json:"nt,omitempty"`
	Counters map[string]int64  `json:"c,omitempty"`
	Maxes    map[string]int64  `json:"m,omitempty"`
	Samples  []json.RawMessage `json:"samples,omitempty"`
}

type violLine struct {
	T    string          `json:"t"`
	Idx  int             `json:"i"`
	V    props.Violation `json:"v"`
	Case json.RawMessage `json:"case"`
}

type incLine struct {
	T      string `json:"t"`
	Idx    int    `json:"i"`
	Reason string `json:"reason"`
}

func fatal(format string, args ...interface{}) {
	fmt.Fprintf(os.Stderr, "vworker: "+format+"\n", args...)
	os.Exit(3)
}

func main() {
	if len(os.Args) < 2 {
		fatal("usage: vworker info|run|replay ...")
	}
	switch os.Args[1] {
	case "info":
		info()
	case "run":
		run()
	case "replay":
		replay()
	default:
		fatal("unknown command %q", os.Args[1])
	}
}

func getProp(id string) *props.Prop {
	p, ok := props.Registry[id]
	if !ok {
		fatal("unknown property %q", id)
	}
	return p
}

func info() {
	if len(os.Args) == 2 {
		json.NewEncoder(os.Stdout).Encode(props.IDs())
		return
	}
	p := getProp(os.Args[2])
	tier := os.Args[3]
	out := map[string]interface{}{
		"n":           p.NumCases(tier),
		"race":        p.Race,
		"rule":        p.Rule,
		"assumptions": p.Assumptions,
		"floors":      p.Floors[tier],
		"procs":       p.Procs,
	}
	json.NewEncoder(os.Stdout).Encode(out)
}

func runCase(p *props.Prop, c interface{}, tier string) (rec *props.Rec) {
	rec = props.NewRec(tier)
	if props.BeforeCase != nil {
		props.BeforeCase()
	}
	rec.Guard("unguarded", func() { p.Run(c, rec) })
	return rec
}

func run() {
	if len(os.Args) != 9 {
		fatal("usage: vworker run <prop> <tier> <seed> <lo> <hi> <logfile> <curfile>")
	}
	p := getProp(os.Args[2])
	tier := os.Args[3]
	seed, _ := strconv.ParseUint(os.Args[4], 10, 64)
	lo, _ := strconv.Atoi(os.Args[5])
	hi, _ := strconv.Atoi(os.Args[6])
	logf, err := os.OpenFile(os.Args[7], os.O_CREATE|os.O_WRONLY|os.O_APPEND, 0o644)
	if err != nil {
		fatal("%v", err)
	}
	curf, err := os.OpenFile(os.Args[8], os.O_CREATE|os.O_WRONLY, 0o644)
	if err != nil {
		fatal("%v", err)
	}
	procs := p.Procs
	if procs == 0 {
		procs = 2
	}
	runtime.GOMAXPROCS(procs)
	if p.Setup != nil {
		p.Setup(tier)
	}
	emit := func(v interface{}) {
		b, _ := json.Marshal(v)
		b = append(b, '\n')
		logf.Write(b)
	}
	startDeadlockMonitor()
	sum := summary{T: "s", Counters: map[string]int64{}, Maxes: map[string]int64{}}
	seen := map[uint64]bool{}
	nbSamples := 0
	flush := func(upto int) {
		sum.Upto = upto
		emit(sum)
		sum = summary{T: "s", Counters: map[string]int64{}, Maxes: map[string]int64{}}
	}
	for idx := lo; idx < hi; idx++ {
		r := gen.New(props.CaseSeed(seed, p.ID, idx))
		c := p.Gen(r, tier, idx)
		raw, err := json.Marshal(c)
		if err != nil {
			fatal("cannot marshal case: %v", err)
		}
		// Record the case before touching gophersat: header is a fixed-width index and length.
		cur := append([]byte(fmt.Sprintf("%012d %012d\n", idx, len(raw))), raw...)
		curf.WriteAt(cur, 0)
		currentCase.Store(int64(idx))
		t0 := time.Now()
		rec := runCase(p, c, tier)
		if ms := time.Since(t0).Milliseconds(); ms > sum.Maxes["slowest_case_ms(informational)"] {
			sum.Maxes["slowest_case_ms(informational)"] = ms
			sum.Maxes["slowest_case_ms_x1e7_plus_index(informational)"] = ms*10_000_000 + int64(idx)
		}
		sum.N++
		for k, v := range rec.Counters {
			sum.Counters[k] += v
		}
		for k, v := range rec.Maxes {
			if v > sum.Maxes[k] {
				sum.Maxes[k] = v
			}
		}
		if rec.NonTrivial && !seen[rec.Canon] {
			seen[rec.Canon] = true
			sum.NonTriv = append(sum.NonTriv, rec.Canon)
			if nbSamples < 2 {
				nbSamples++
				s := raw
				if rec.Sample != nil {
					s, _ = json.Marshal(rec.Sample)
				}
				sum.Samples = append(sum.Samples, s)
			}
		}
		for _, v := range rec.Viols {
			emit(violLine{T: "v", Idx: idx, V: v, Case: raw})
		}
		for _, reason := range rec.Inconcl {
			emit(incLine{T: "inc", Idx: idx, Reason: reason})
		}
		if sum.N >= 256 {
			flush(idx + 1)
		}
	}
	flush(hi)
	emit(map[string]string{"t": "done"})
}

func replay() {
	if len(os.Args) != 5 {
		fatal("usage: vworker replay <prop> <tier> <casefile>")
	}
	p := getProp(os.Args[2])
	tier := os.Args[3]
	raw, err := os.ReadFile(os.Args[4])
	if err != nil {
		fatal("%v", err)
	}
	c := p.New()
	if err := json.Unmarshal(raw, c); err != nil {
		fatal("cannot decode case: %v", err)
	}
	if p.Setup != nil {
		p.Setup(tier)
	}
	rec := runCase(p, c, tier)
	for _, v := range rec.Viols {
		fmt.Printf("VIOLATED scenario=%s kind=%s site=%q\n%s\n", v.Scenario, v.Kind, v.Site, v.Detail)
	}
	for _, r := range rec.Inconcl {
		fmt.Printf("INCONCLUSIVE %s\n", r)
	}
	out, _ := json.Marshal(map[string]interface{}{"violations": rec.Viols, "counters": rec.Counters, "nontrivial": rec.NonTrivial})
	fmt.Printf("RESULT %s\n", out)
	if len(rec.Viols) > 0 {
		os.Exit(1)
	}
}
