// Command cptrace replays a C14 case with the cutting-planes strategy and prints the last analysis events (debugging aid).
package main

import (
	"encoding/json"
	"fmt"
	"os"

	"github.com/crillab/gophersat/solver"

	"verif/internal/props"
	"verif/internal/ref"
)

func main() {
	b, _ := os.ReadFile(os.Args[1])
	var doc struct {
		Case props.C14Case `json:"case"`
	}
	json.Unmarshal(b, &doc)
	c := doc.Case
	var events []string
	add := func(s string) {
		events = append(events, s)
		if len(events) > 60 {
			events = events[1:]
		}
	}
	solver.VerifHooks.StepBudget = 20000
	solver.VerifHooks.OnPB = func(s *solver.Solver, stage string, w []int, card int) {
		add(fmt.Sprintf("  %s: %v >= %d", stage, w, card))
	}
	solver.VerifHooks.OnPBResult = func(s *solver.Solver, lits, weights []int, card int, prop []int, newLvl int) {
		add(fmt.Sprintf("RESULT learned=%v w=%v card=%d propagated=%v newLvl=%d", lits, weights, card, prop, newLvl))
	}
	defer func() {
		if e := recover(); e != nil {
			for _, ev := range events {
				fmt.Println(ev)
			}
			fmt.Println("PANIC", e)
		}
	}()
	var cs []solver.PBConstr
	for _, l := range c.P.Cons {
		cs = append(cs, props.PBConstrsOf(l)...)
	}
	var pb *solver.Problem
	if c.Domain == "card" {
		var cc []solver.CardConstr
		for _, l := range c.P.Cons {
			cc = append(cc, props.CardConstrsOf(l)...)
		}
		pb = solver.ParseCardConstrs(cc)
	} else {
		pb = solver.ParsePBConstrs(cs)
	}
	_ = ref.GE
	if c.P.HasCost {
		pb.SetCostFunc(props.ToLits(c.P.CostLits), props.CopyInts(c.P.CostW))
	}
	fmt.Println(pb.PBString())
	s := solver.New(pb)
	s.CuttingPlanes = true
	fmt.Println(s.Solve())
}
