// Command shrinkbf shrinks a failing C11/C12 formula from a replay file (debugging aid).
package main

import (
	"encoding/json"
	"fmt"
	"os"

	"github.com/crillab/gophersat/bf"

	"verif/internal/props"
	"verif/internal/ref"
)

func fails(f *ref.F) (bad bool) {
	defer func() {
		if recover() != nil {
			bad = true
		}
	}()
	sat := f.HasModel()
	m := bf.Solve(props.ToBF(f))
	if (m == nil) == sat {
		return true
	}
	if m != nil {
		full := map[string]bool{}
		for k, v := range m {
			full[k] = v
		}
		if !f.Eval(full) {
			return true
		}
	}
	return false
}

func clone(f *ref.F) *ref.F {
	g := &ref.F{Op: f.Op, Name: f.Name, Names: append([]string{}, f.Names...)}
	for _, k := range f.Kids {
		g.Kids = append(g.Kids, clone(k))
	}
	return g
}

// candidates returns smaller variants of f obtained by rewriting one node.
func candidates(f *ref.F) []*ref.F {
	var res []*ref.F
	// replace f by a kid
	for _, k := range f.Kids {
		res = append(res, clone(k))
	}
	if f.Op != "var" && f.Op != "true" && f.Op != "false" {
		res = append(res, &ref.F{Op: "var", Name: "v1"}, &ref.F{Op: "true"}, &ref.F{Op: "false"})
	}
	if f.Op == "uniq" && len(f.Names) > 0 {
		for i := range f.Names {
			g := clone(f)
			g.Names = append(g.Names[:i], g.Names[i+1:]...)
			res = append(res, g)
		}
	}
	if (f.Op == "and" || f.Op == "or") && len(f.Kids) > 0 {
		for i := range f.Kids {
			g := clone(f)
			g.Kids = append(g.Kids[:i], g.Kids[i+1:]...)
			res = append(res, g)
		}
	}
	for i, k := range f.Kids {
		for _, c := range candidates(k) {
			g := clone(f)
			g.Kids[i] = c
			res = append(res, g)
		}
	}
	return res
}

func main() {
	b, _ := os.ReadFile(os.Args[1])
	var doc struct {
		Case struct {
			F *ref.F `json:"f"`
		} `json:"case"`
	}
	if err := json.Unmarshal(b, &doc); err != nil {
		panic(err)
	}
	f := doc.Case.F
	if !fails(f) {
		fmt.Println("does not fail")
		return
	}
	for changed := true; changed; {
		changed = false
		for _, c := range candidates(f) {
			if c.Size() <= f.Size() && c.String() != f.String() && len(c.String()) < len(f.String()) && fails(c) {
				f = c
				changed = true
				break
			}
		}
	}
	fmt.Println("minimal:", f)
	fmt.Println("bf:", props.ToBF(f))
	fmt.Println("Solve:", bf.Solve(props.ToBF(f)), "hasModel:", f.HasModel())
}
